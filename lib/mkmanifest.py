#!/usr/bin/env python3
"""Writes MANIFEST.json from the table below (kept in one place so that it stays valid)."""
import json, os
HERE = os.path.dirname(os.path.abspath(__file__))
VERIF = os.path.dirname(HERE)

K = "Kani proof harnesses (CBMC + CaDiCaL) over the compiled crate, injected as child modules"
CLAIMS = {
 "C01": ("The site-reader kernel read_site is model-checked for every genotype vector of 3 samples under the enumerated sample->population assignments from an arbitrary dirty pre-state: Standard(counts) iff every selected sample is called, counts = per-population ALT sums, unselected samples never matter, a selected ploidy error aborts. Accumulation in Runner::run and the 2n+1 shape closure are decided on the MIR (mir2smt).",
         "sample::Map replaced by a table model (the real hash containers are C09, not applicable); VCF/BCF decoding is noodles'; printing at precision 0 is std::fmt (not encodable).",
         K + "; one-step inductive form (arbitrary pre-state); mir2smt glue/numeric tasks"),
 "C02": ("Three-way exact/projectable/insufficient decision of read_site for symbolic targets and allele counts (called-pattern enumerated), the values a projected site adds (product of per-axis pmf terms in row-major order, pmf abstracted by a table), ProjectIter as an inductive step with symbolic sizes, builder validation on the MIR.",
         "hypergeometric pmf abstracted by a pure table (its numeric value is not decidable with these engines); cohorts > 3 samples outside the bound; record class 'no selected sample called' with projection excluded (CBMC out of memory).",
         K + "; pmf stubbed by a table; inductive step for ProjectIter"),
 "C03": ("Structure of Spectrum::project (weighted sum over source cells of per-axis pmf products, right arguments/axes/order) on listed shape pairs, ProjectIter inductive step, and the validation/Err cases for symbolic shapes of rank 1-3. The numeric exactness of the pmf (ln/exp numerics, large sizes, finiteness) is explicitly NOT decided.",
         "pmf abstracted by a table; laws that need the real coefficients (identity, two-step, mass) are reduced to properties of the pmf that are outside the claim.",
         K + "; pmf stubbed by a table"),
 "C04": ("marginalize on listed (shape, ordered axis list) pairs equals nested integer sums over the removed axes with kept axes in original order — all orders of an axis set against the same oracle; validation (duplicate / out-of-range / too many) for symbolic axis lists of length 0-5; RemovedAxis lemmas for symbolic shapes; view::Iter inductive step.",
         "RemovedAxis::into_shape replaced by a loop-and-push model in full runs (proved equal per removed position); marginalize_unchecked cut in the validation harnesses; cells 0..7.",
         K + "; integer oracle from the statement"),
 "C05": ("fold().into_spectrum(fill) equals the statement's per-axis-mirror oracle (sum / average on the diagonal / fill) for every cell vector 0..7 and all four fills on the listed shapes (1-4 axes, odd/even totals, length-1 axes); mass, idempotence, polarity on a subset; index-sum and mirror lemmas for symbolic shapes of rank 1-3.",
         "cells are small integers (exact in f64); shapes beyond the list are covered only through the symbolic index lemmas.",
         K + "; integer oracle with per-axis mirror"),
 "C07": ("npy value bytes round-trip bit-identically for all 2^64 bit patterns (write_array value loop -> '<f8' decoder), also through short writes; format auto-detection is decided for every byte string of length 0..8 (no panic on short input). The text format half and the header text are NOT decided (std::fmt / from_str / nom are not encodable in useful time).",
         "Header::write stubbed out in the value-loop harnesses; text round-trip clauses outside the claim.",
         K),
 "C08": ("The genotype conversion both readers end in is decided for ploidy 1-3, each allele None or any usize, any phasing, against the statement's classification; the site kernel shows a ploidy error aborts iff it is in a selected sample.",
         "GT text / BCF byte decoding is noodles' and not encoded; error message text (contig:position) checked on the MIR only.",
         K),
 "C11": ("One read_site step from an arbitrary dirty pre-state (counts, totals, skipped list) gives the contribution determined by the record alone; the projection scratch buffer may hold anything (project_unchecked_dirty_buf); ProjectIter step. With the glue claim 'scs changes only by adding the contribution' this gives additivity and order-freedom.",
         "sample::Map table model; pmf table; floating-point summation order with projection is the property's own caveat.",
         K + "; one inductive step instead of exploring histories"),
 "C15": ("All 20 decoders against a hand decoder on fully symbolic bytes; header length field / version bytes for all byte values incl. write-then-read; descriptor table for every 3-byte ASCII string; Header::read accepts the canonical v1/v2 headers under chunking; writer padding arithmetic on the MIR for every dict length.",
         "the dict printer (Display) and the nom dict parser are not decided (not encodable in useful time): spelling variants and the literal header text are outside the claim.",
         K + "; mir2smt for the padding arithmetic"),
 "C16": ("Header::read rejects every strict prefix (0..127) of the canonical numpy v1.0/v2.0 header; the value loop rejects every cut inside a value and returns t/size values otherwise, and Array::new then rejects every count != product(shape) (so cuts at value boundaries and extensions by 1..16 bytes are rejected); Array::new shape check for symbolic shapes.",
         "dict parser / from_utf8 stubbed as continuation cuts; text-file tokenisation not decided; read_array wiring by MIR glue.",
         K),
 "C18": ("npy reader units under listed chunk schedules (first chunk 1..11 bytes, later chunks 1..4 bytes or the rest) give the same result as one chunk; an injected reader/writer failure at the listed offsets surfaces as Err; value writer through 1/3-byte writes produces the same bytes; VCF/BCF magic detection is independent of the first-chunk length when it is >= 3 (shorter: known finding).",
         "chunk schedules and fault offsets are enumerated lists, not all schedules (symbolic schedules do not finish); io::Error::is_interrupted stubbed to false; VCF/BCF/BGZF record streams (noodles, flate2) not encodable.",
         K + "; environment (BufRead/Write) as a stub with enumerated schedules"),
 "C19": ("Bounded model checking of the real array/shape/iterator code: index lemmas and iterator inductive steps with symbolic axis lengths (rank 1-3 quick, 4-5 thorough), whole runs and sum=views on listed shapes with symbolic contents; bounds tests over the full usize range.",
         "iterator representation invariants assumed by the inductive steps (a broken INV: assertion is reported as inconclusive); RemovedAxis::into_shape model in sum harnesses.",
         K + "; inductive step over iterator state; symbolic-shape lemmas"),
}
CLAIMS.update({
 "C06": ("Published estimators: the expression trees of the Fu-Li and Tajima D denominators and of the theta weights, extracted from the MIR, equal the published formulas for every n >= 3 over the reals (z3), with their integer overflow conditions discharged; Statistic::calculate calls the method each name says (normalised for f2/f3/f4/fst). Definitions: S, pi, theta_W, pi_xy, f2, f3, f4, Hudson Fst, KING/R0/R1 against the statement's site-average definitions on small shapes with symbolic cells (Kani).",
         "real arithmetic for the all-n identities (rounding/inf/NaN outside); binomial(n,2) by contract; the genotype-level reading is the composition with C01 (argued); which theta estimators the two D statistics combine is fixed at type level and only checked through the monomorphic-entry / definition harnesses.",
         "mir2smt (nightly MIR -> SMT-LIB, z3) for formulas; " + K + " for definitions"),
 "C10": ("One loop iteration of Runner::run from an arbitrary state, on the MIR with calls uninterpreted: Standard => scs[counts] += 1.0 and sites+1; Projected => add_unchecked and sites+1; InsufficientData => spectrum unchanged, skipped+1 (non-strict) or an immediate Err naming contig/position with counters untouched (strict); Error => immediate Err; Done => Ok(accumulated spectrum). Create::run writes only after Runner::run returned Ok; main turns every Err into stderr + exit 1. Induction over records gives the counting claim.",
         "a Projected contribution has total weight one only if the pmf sums to one (numerics, not decided); stdout byte identity between strict/non-strict and stderr wording not decided; what read_site returns is decided by the C01/C02 kernels.",
         "mir2smt glue mode: path enumeration of the MIR with uninterpreted calls; inductive step over loop iterations"),
 "C13": ("Every acyclic MIR path of View::run (all 16 option subsets x keep/remove x individuals/shape x error exits): the spectrum term that reaches the writer is normalize?(mask?(project?(marginalize?(read)))) with each stage present iff its option is set, mask = 0.0 stored at the first and last cell only, precision/format/path passed through; the keep filter is !keep.contains(i) over 0..dimensions and -p i means 2i+1. normalize divides so that ratios are preserved and the sum is one (Kani, exact for power-of-two sums).",
         "equality with chained single-option invocations is by congruence of the uninterpreted stage functions plus lossless piping (npy, C07); 'reproduces its input to the printed precision' is text I/O (not decided).",
         "mir2smt glue mode; " + K + " for normalize"),
 "C14": ("Invariances on small shapes with symbolic cells: fold(fill 0) leaves pi, theta_W, S, pi_xy, f2 (Fst, KING/R0/R1 thorough) unchanged; the two monomorphic entries do not influence pi, theta_W, S (D statistics, pi_xy, Fst, kinship thorough); swapping populations leaves pi_xy, f2 (Fst thorough), KING/R0/R1 unchanged; scaling by 2, 4, 1/2; f3 from marginal f2 (thorough, exact); f2/f3/f4/fst are computed on the normalised spectrum (glue).",
         "cells 0..3, listed shapes only; general positive scale factors outside; tolerance 1e-9 where a sum is re-associated.",
         K + "; mir2smt glue for normalisation before f-statistics"),
 "C17": ("Panic-freedom of the library/glue kernels: all 14 statistics on a grid of small and degenerate shapes (Kani, Rust overflow/index/unwrap checks on); get/get_axis/flat_index over the full usize range; genotype conversion for any allele index; format detection on short input; Header::write for every dict length and View::run's index arithmetic for every slice length (mir2smt VCs); main maps Err to exit 1. Six degenerate-shape overflows are recorded known findings.",
         "NOT 'any input bytes': arbitrary/mutated VCF/BCF bytes (noodles), clap parsing and text tokenisation are whole-program parsing outside the engines; debug-profile overflow checks (release wraps).",
         K + "; mir2smt overflow/index verification conditions"),
})

NA = {
 "C09": "population/sample maps are IndexMap/IndexSet/HashMap code: CBMC did not finish a two-entry map in 1800 s (SipHash + hashbrown group probing); modelling the containers away leaves nothing of the mechanism to check",
 "C12": "depends on noodles' multi-threaded BGZF reader, flate2, file-vs-stdin and process-level determinism: concurrency and OS I/O are outside what Kani/CBMC or an SMT encoding of the MIR can hold",
}
PENDING = {}

GLUE = {
 "C01": " Glue on the MIR: one iteration of the sample loop updates counts/totals at sample_map.get_population_id(<the record's sample>) and nowhere else; read_site resets first, asks the genotype reader once per call and passes its Error/Done on; the VCF/BCF readers answer every record with that record's decoded GT vector.",
 "C02": " Glue on the MIR: Projected = projection.project_unchecked(&totals, &counts); Builder::build's validation chain; the pmf / binomial / ln_factorial structure over uninterpreted ln, exp, floor, ln_gamma; PartialProjection keeps nothing between sites.",
 "C03": " Glue on the MIR: Spectrum::project wiring and the pmf / binomial / ln_factorial structure over uninterpreted ln, exp, floor, ln_gamma.",
 "C05": " Glue on the MIR: the per-cell closure of Folded::from_spectrum decides from the index sum in the spectrum's own shape and keeps nothing between calls.",
 "C06": " Glue on the MIR: harmonic / p_harmonic are the sums of the first n-1 terms; binomial's structure; f2/f3/f4/Fst/pi_xy kernels for all sizes.",
 "C07": " Glue on the MIR: the read builder hands exactly the bytes read to the detected format's reader; the write builder hands the caller's writer itself to one format writer with its own precision.",
 "C08": " Glue on the MIR: both genotype readers convert exactly the record's decoded GT vector with this conversion.",
 "C11": " Glue on the MIR: PartialProjection and site::Reader carry no state besides their per-record scratch, read_site consumes exactly one record per call (history independence, with native replays).",
 "C13": " If View::run has a form the model does not recognise, the statement is run against the built binary (all option subsets on eleven shapes) and only a failing run is a violation.",
 "C18": " Glue on the MIR: write::Builder hands the caller's writer itself (no intermediate buffer) to the format writer; a deviation is replayed with a sink failing at every offset.",
}


def main():
    import json as _json
    props = _json.load(open(os.path.join(VERIF, "lib", "props.json")))
    m_serves = sorted(p for p in CLAIMS if props.get(p, {}).get("mtasks"))
    m = {
     "version": 1,
     "setup_cmd": "./setup.sh",
     "hooks": {
       "guard": "cfg(kani)",
       "enable": "no hook is committed to /repo: each check rsyncs /repo's working tree to a scratch directory under /tmp and appends `#[cfg(kani)] #[path=\"<scratch>/harness/...rs\"] mod kv_*;` to the module files under test (the harness is then a child module that sees private items); cfg(kani) is set only by kani-compiler. mir2smt reads the nightly MIR dump of the same scratch copy.",
       "baseline_off_cmd": "cd /repo && cargo test --workspace --no-fail-fast --offline",
       "source_commits": [],
       "add_only": True,
     },
     "engines": [
       {"name": "K", "path": "lib/kv.py", "serves_properties": sorted(CLAIMS), "kind_free_text": "Kani 0.68 / CBMC 6.11 / CaDiCaL bounded model checking of the compiled crates; harnesses in harness/, injected into a scratch copy"},
       {"name": "M", "path": "lib/mtasks.py", "serves_properties": m_serves, "kind_free_text": "mir2smt: nightly MIR dump -> SMT-LIB (z3, cvc5 cross-check): numeric identities / overflow VCs and glue path terms; fifteen obligations replay a deviation natively, with the clause of the property being checked against the real code before reporting it"},
     ],
     "checks": [],
     "not_applicable": [],
     "notes": "exit 2 of a check = inconclusive (timeout, out of memory, harness no longer compiles against /repo, counterexample that does not reproduce natively); never reported as a pass. Known findings: known_findings.json.",
    }
    for pid in sorted(CLAIMS):
        text, note, tech = CLAIMS[pid]
        m["checks"].append({
          "property_id": pid,
          "quick_cmd": f"./check {pid} --tier quick",
          "thorough_cmd": f"./check {pid} --tier thorough",
          "evidence_file": f"evidence/{pid}.json",
          "replay_cmd_template": "./check --replay {path}",
          "engine": "K+M",
          "level_claimed": {"category": "model_checking", "text": text + GLUE.get(pid, ""), "design_ref": f"DESIGN.md section 4, {pid}"},
          "level_note": note,
          "technique": tech})
    for pid, reason in list(NA.items()) + [(p, r) for p, r in PENDING.items() if p not in CLAIMS]:
        m["not_applicable"].append({"property_id": pid, "reason": reason})
    m["not_applicable"].sort(key=lambda x: x["property_id"])
    json.dump(m, open(os.path.join(VERIF, "MANIFEST.json"), "w"), indent=1)

if __name__ == "__main__":
    main()
