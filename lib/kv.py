"""Engine K: run Kani harnesses (child modules injected into a scratch copy of /repo).

Nothing here writes to /repo.  See DESIGN.md section 2.1.
"""
import json, os, re, shutil, subprocess, tempfile, time, hashlib

VERIF = os.path.dirname(os.path.dirname(os.path.abspath(__file__)))
REPO = os.environ.get("VERIF_REPO", "/repo")
HARNESS_DIR = os.path.join(VERIF, "harness")

ENV = dict(os.environ, CARGO_NET_OFFLINE="true")
# the kani driver picks its own pinned toolchain; make sure nothing overrides it
ENV.pop("RUSTUP_TOOLCHAIN", None)
ENV.pop("RUSTFLAGS", None)

HARNESS_RE = re.compile(r"^\s*//\s*@harness\b(.*)$")
INJECT_RE = re.compile(r"^\s*//\s*@inject\b(.*)$")
FN_RE = re.compile(r"^\s*(?:(?:pub\s+)?fn\s+([A-Za-z0-9_]+)\s*\(|[a-z_0-9]+!\(\s*(?:#\[[^\]]*\]\s*)*([A-Za-z0-9_]+)\s*[,)])")


def _kv(s):
    out = {}
    for tok in s.split():
        if "=" in tok:
            k, v = tok.split("=", 1)
            out[k] = v
        else:
            out[tok] = "1"
    return out


class Harness:
    def __init__(self, name, file, inject, attrs, line):
        self.name = name
        self.file = file              # path relative to HARNESS_DIR
        self.inject = inject          # dict(crate, file, mod)
        self.attrs = attrs
        self.line = line
        self.props = attrs.get("props", "").split(",")
        self.tier = attrs.get("tier", "quick")
        self.group = attrs.get("group", "int")   # int | f64
        self.timeout = int(attrs.get("timeout", "600"))
        self.bounds = attrs.get("bounds", "")
        self.role = attrs.get("role", "")

    @property
    def modpath(self):
        f = self.inject["file"]
        # core/src/array/view/iter.rs -> array::view::iter ; lib.rs / main.rs -> ''
        rel = f.split("/src/", 1)[1]
        rel = rel[:-3]
        parts = [p for p in rel.split("/") if p not in ("lib", "main", "mod")]
        return "::".join(parts + [self.inject["mod"]])

    @property
    def pretty(self):
        return self.modpath + "::" + self.name

    @property
    def crate(self):
        return self.inject["crate"]


def discover():
    """Parse every harness file under /verif/harness for @inject and @harness annotations."""
    out = []
    for root, _, files in os.walk(HARNESS_DIR):
        for fn in sorted(files):
            if not fn.endswith(".rs"):
                continue
            path = os.path.join(root, fn)
            rel = os.path.relpath(path, HARNESS_DIR)
            inject = None
            pending = None
            with open(path) as fh:
                for ln, line in enumerate(fh, 1):
                    m = INJECT_RE.match(line)
                    if m:
                        inject = _kv(m.group(1))
                        continue
                    m = HARNESS_RE.match(line)
                    if m:
                        pending = (_kv(m.group(1)), ln)
                        continue
                    m = FN_RE.match(line)
                    if pending is not None and not m and line.strip() and not line.strip().startswith(("#[", "//")):
                        raise SystemExit(f"{rel}:{ln}: @harness annotation at line {pending[1]} is not followed by a harness (fn or macro invocation)")
                    if m and pending is not None:
                        if inject is None:
                            raise SystemExit(f"{rel}: @harness before @inject")
                        out.append(Harness(m.group(1) or m.group(2), rel, inject, pending[0], pending[1]))
                        pending = None
    return out


def select(prop, tier):
    hs = [h for h in discover() if prop in h.props]
    if tier == "quick":
        hs = [h for h in hs if h.tier == "quick"]
    return hs


class Scratch:
    """Scratch copy of /repo's working tree with harness modules injected."""

    def __init__(self, keep=False):
        self.dir = tempfile.mkdtemp(prefix="sfs-verif.", dir=os.environ.get("VERIF_TMP", "/tmp"))
        self.src = os.path.join(self.dir, "src")
        self.hdir = os.path.join(self.dir, "harness")
        self.target = os.path.join(self.dir, "target")
        self.keep = keep
        self.injected = set()
        self.disabled = set()
        subprocess.run(["rsync", "-a", "--exclude", "target", "--exclude", ".git", REPO + "/", self.src + "/"], check=True)
        shutil.copytree(HARNESS_DIR, self.hdir)

    def inject(self, harnesses):
        for h in harnesses:
            key = (h.inject["file"], h.inject["mod"])
            if key in self.injected:
                continue
            self.injected.add(key)
            target = os.path.join(self.src, h.inject["file"])
            if not os.path.exists(target):
                raise FileNotFoundError(f"inject target {h.inject['file']} missing in /repo")
            with open(target, "a") as fh:
                fh.write(f"\n#[cfg(kani)]\n#[path = \"{os.path.join(self.hdir, h.file)}\"]\nmod {h.inject['mod']};\n")

    def disable(self, files):
        """blank out harness files (they stay injected, but contain nothing)"""
        for f in files:
            self.disabled.add(f)
            with open(os.path.join(self.hdir, f), "w") as fh:
                fh.write("// disabled: does not compile against the current /repo\n")

    def cleanup(self):
        if not self.keep:
            shutil.rmtree(self.dir, ignore_errors=True)

    def __enter__(self):
        return self

    def __exit__(self, *a):
        self.cleanup()


def repo_fingerprint():
    h = hashlib.sha256()
    for root, dirs, files in os.walk(REPO):
        dirs[:] = sorted(d for d in dirs if d not in ("target", ".git"))
        for fn in sorted(files):
            if fn.endswith((".rs", ".toml", ".lock")):
                p = os.path.join(root, fn)
                h.update(p.encode())
                with open(p, "rb") as fh:
                    h.update(fh.read())
    return h.hexdigest()[:16]


GROUP_FLAGS = {
    "int": [],
    # f64 data: Kani's float-overflow / NaN checks flag legitimate IEEE behaviour (inf-inf);
    # Rust's own integer-overflow panics are MIR assertions and stay on.
    "f64": ["--no-overflow-checks"],
}


def _cargo_kani(scratch, crate, harnesses, extra, log, timeout, mem_gb=None):
    cmd = ["cargo", "kani", "-p", crate, "-Z", "stubbing", "-Z", "unstable-options",
           "--target-dir", scratch.target, "--no-assertion-reach-checks",
           "--output-format", "terse", "--exact"]
    for h in harnesses:
        cmd += ["--harness", h.pretty]
    cmd += extra
    shell = " ".join(_q(c) for c in cmd)
    if mem_gb:
        shell = f"ulimit -v {int(mem_gb * 1024 * 1024)}; " + shell
    t0 = time.time()
    with open(log, "w") as fh:
        try:
            p = subprocess.run(["bash", "-c", shell], cwd=scratch.src, env=ENV, stdout=fh, stderr=subprocess.STDOUT, timeout=timeout)
            rc = p.returncode
        except subprocess.TimeoutExpired:
            rc = -9
    return rc, time.time() - t0


def _q(s):
    import shlex
    return shlex.quote(s)


class Result:
    def __init__(self, h):
        self.h = h
        self.status = "not-run"   # success | failure | inconclusive
        self.reason = ""
        self.failed = []          # list of dict(function, description, file, line)
        self.covers = (0, 0)      # satisfied, total
        self.checks = 0
        self.time = 0.0
        self.stats = {}
        self.log = ""

    def as_dict(self):
        return dict(harness=self.h.pretty, status=self.status, reason=self.reason, failed=self.failed,
                    covers=list(self.covers), checks=self.checks, time_s=round(self.time, 2), stats=self.stats,
                    bounds=self.h.bounds)


IGNORED_FAIL_FUNCS = ("rust_alloc_error_handler",)


def run(scratch, harnesses, jobs=12, logdir=None, mem_gb=float(os.environ.get("VERIF_MEM_GB", "14"))):
    """Run the given harnesses; returns {pretty: Result}."""
    results = {h.pretty: Result(h) for h in harnesses}
    logdir = logdir or os.path.join(scratch.dir, "logs")
    os.makedirs(logdir, exist_ok=True)
    scratch.inject(harnesses)
    groups = {}
    for h in harnesses:
        groups.setdefault((h.crate, h.group), []).append(h)
    for (crate, group), hs in sorted(groups.items()):
        flags = GROUP_FLAGS[group]
        # harness files disabled while building an earlier group stay disabled
        for h in [h for h in hs if h.file in scratch.disabled]:
            r = results[h.pretty]
            r.status = "inconclusive"
            r.reason = f"harness file {h.file} no longer compiles against /repo (an item it names changed)"
        hs = [h for h in hs if h.file not in scratch.disabled]
        if not hs:
            continue
        # phase 1: code generation (no memory cap; compile errors show up here)
        log1 = os.path.join(logdir, f"codegen-{crate}-{group}.log")
        rc, dt = _cargo_kani(scratch, crate, hs, flags + ["--only-codegen"], log1, timeout=1800)
        attempts = 0
        while rc != 0 and attempts < 3:
            # a harness file that no longer compiles against /repo takes the whole build down: mark
            # its harnesses inconclusive, disable that file and go on with the others
            attempts += 1
            bad = _files_with_errors(log1, scratch)
            tail = _tail(log1, 60)
            if not bad:
                break
            for h in [h for h in hs if h.file in bad]:
                r = results[h.pretty]
                r.status = "inconclusive"
                r.reason = f"harness file {h.file} no longer compiles against /repo (an item it names changed)"
                r.log = tail
            scratch.disable(bad)
            hs = [h for h in hs if h.file not in bad]
            if not hs:
                rc = 0
                break
            rc, dt = _cargo_kani(scratch, crate, hs, flags + ["--only-codegen"], log1, timeout=1800)
        if rc != 0:
            tail = _tail(log1, 60)
            for h in hs:
                r = results[h.pretty]
                r.status = "inconclusive"
                r.reason = "codegen failed (harness no longer compiles against /repo, or build error)"
                r.log = tail
            continue
        if not hs:
            continue
        # phase 2: verification
        tmax = max(h.timeout for h in hs)
        nwaves = (len(hs) + jobs - 1) // jobs
        out_json = os.path.join(logdir, f"run-{crate}-{group}.json")
        log2 = os.path.join(logdir, f"run-{crate}-{group}.log")
        extra = flags + ["-j", str(jobs), "--export-json", out_json, "--harness-timeout", f"{tmax}s"]
        rc, dt = _cargo_kani(scratch, crate, hs, extra, log2, timeout=tmax * (nwaves + 1) + 600, mem_gb=mem_gb)
        _parse(out_json, log2, hs, results)
    return results


def _files_with_errors(log, scratch):
    """harness files (relative to the harness dir) named in rustc error locations"""
    bad = set()
    try:
        txt = open(log, errors="replace").read()
    except OSError:
        return bad
    for m in re.finditer(r"^error(?:\[E\d+\])?:.*?\n\s*--> ([^\n:]+):\d+:\d+", txt, re.M | re.S):
        path = m.group(1).strip()
        if path.startswith(scratch.hdir):
            bad.add(os.path.relpath(path, scratch.hdir))
    return bad


def _tail(path, n):
    try:
        with open(path, errors="replace") as fh:
            lines = fh.readlines()
        lines = [l for l in lines if not re.match(r"^\s*(warning|-->|\d* *\||= note|= help|= warning|help:|\.\.\.)", l) and l.strip()]
        return "".join(lines[-n:])
    except OSError:
        return ""


def _parse(out_json, log, hs, results):
    data = None
    try:
        with open(out_json) as fh:
            data = json.load(fh)
    except (OSError, ValueError):
        pass
    text = ""
    try:
        with open(log, errors="replace") as fh:
            text = fh.read()
    except OSError:
        pass
    if data is None:
        for h in hs:
            r = results[h.pretty]
            r.status = "inconclusive"
            r.reason = "no result file from kani (killed, timed out or crashed)"
            r.log = _tail(log, 40)
        return
    stats = {e["harness_id"]: (e.get("cbmc_stats") or {}) for e in data.get("cbmc", [])}
    for e in data.get("verification_results", {}).get("results", []):
        r = results.get(e["harness_id"])
        if r is None:
            continue
        r.time = e.get("duration_ms", 0) / 1000.0
        r.stats = {k: v for k, v in stats.get(e["harness_id"], {}).items() if k in (
            "runtime_symex_s", "runtime_solver_s", "runtime_decision_procedure_s", "vccs_generated", "vccs_remaining", "size_program_expression")}
        checks = e.get("checks", [])
        r.checks = len(checks)
        sat = tot = 0
        failed = []
        incon = []
        for c in checks:
            cat = c.get("category", "")
            st = c.get("status", "")
            if cat == "cover":
                tot += 1
                if st in ("Satisfied", "Covered"):
                    sat += 1
                continue
            if st in ("Success", "Unreachable", "Satisfied", "Covered"):
                continue
            loc = c.get("location") or {}
            item = dict(function=c.get("function", ""), description=c.get("description", ""),
                        file=loc.get("file", ""), line=loc.get("line", ""), category=cat, status=st)
            if st == "Failure":
                if cat == "unwind" or "unwinding assertion" in item["description"]:
                    incon.append(item)
                elif "INV:" in item["description"]:
                    # the inductive invariant no longer describes the implementation's state:
                    # the induction is broken, which is neither a pass nor a violation
                    incon.append(item)
                elif any(f in item["function"] for f in IGNORED_FAIL_FUNCS):
                    continue
                else:
                    failed.append(item)
            else:
                incon.append(item)
        r.covers = (sat, tot)
        r.failed = failed
        status = e.get("status", "")
        if failed:
            r.status = "failure"
        elif incon:
            r.status = "inconclusive"
            r.reason = "undetermined / unwinding: " + "; ".join(sorted({i["description"] for i in incon}))[:300]
        elif status == "Success":
            if sat < tot:
                r.status = "inconclusive"
                r.reason = f"vacuity: only {sat} of {tot} cover properties satisfied"
            else:
                r.status = "success"
        else:
            r.status = "inconclusive"
            r.reason = f"kani status {status} without a failed check (timeout, out of memory or solver error)"
    for h in hs:
        r = results[h.pretty]
        if r.status == "not-run":
            r.status = "inconclusive"
            r.reason = "harness missing from kani results (timeout / crash)"
            # try to find a hint in the log
            m = re.search(re.escape(h.pretty) + r".{0,400}", text, re.S)
            r.log = m.group(0)[:400] if m else ""


def playback(scratch, h, logdir):
    """Concrete playback of a failing harness against a native (dev profile) build of the real,
    un-stubbed code: returns (reproduced: bool|None, profile, tests_src, detail)."""
    os.makedirs(logdir, exist_ok=True)
    hfile = os.path.join(scratch.hdir, h.file)
    log = os.path.join(logdir, f"playback-gen-{h.name}.log")
    flags = GROUP_FLAGS[h.group]
    rc, _ = _cargo_kani(scratch, h.crate, [h], flags + ["-Z", "concrete-playback", "--concrete-playback=print"], log, timeout=h.timeout + 600)
    txt = open(log, errors="replace").read()
    blocks = re.findall(r"Concrete playback unit test for `[^`]*`:\s*```\n(.*?)```", txt, re.S)
    # tests of failed checks first, then those labelled with a cover property: Kani de-duplicates
    # identical inputs, so the input of a failed assertion may be filed under a cover it also hits
    # (a cover test passes natively on correct code, so running it is harmless)
    blocks = [b for b in blocks if not re.search(r"Check for `cover`", b)] + [b for b in blocks if re.search(r"Check for `cover`", b)]
    seen, uniq = set(), []
    for b in blocks:
        m = re.search(r"fn (kani_concrete_playback_[A-Za-z0-9_]+)", b)
        if m and m.group(1) not in seen:
            seen.add(m.group(1))
            uniq.append(b)
    blocks = uniq[:8]
    if not blocks:
        return None, "", "", "kani produced no concrete playback test"
    tests_src = "\n".join(blocks)
    return run_playback(scratch, h, tests_src, logdir)


def run_playback(scratch, h, tests_src, logdir):
    os.makedirs(logdir, exist_ok=True)
    hfile = os.path.join(scratch.hdir, h.file)
    with open(hfile, "a") as fh:
        fh.write("\n" + tests_src + "\n")
    names = re.findall(r"fn (kani_concrete_playback_[A-Za-z0-9_]+)", tests_src)
    plog = os.path.join(logdir, f"playback-dev-{h.name}.log")
    cmd = ["cargo", "kani", "playback", "-Z", "concrete-playback", "-p", h.crate, "--", "kani_concrete_playback_" + h.name + "_"]
    with open(plog, "w") as fh:
        try:
            # kv_replay: harnesses that rely on Kani stubs switch to the real objects / exact oracles
            subprocess.run(cmd, cwd=scratch.src, env=dict(ENV, RUSTFLAGS="--cfg kv_replay"), stdout=fh, stderr=subprocess.STDOUT, timeout=1800)
        except subprocess.TimeoutExpired:
            pass
    txt = open(plog, errors="replace").read()
    fails = re.findall(r"^test \S*(kani_concrete_playback_\S+) \.\.\. FAILED", txt, re.M)
    oks = re.findall(r"^test \S*(kani_concrete_playback_\S+) \.\.\. ok", txt, re.M)
    if fails:
        m = re.search(r"panicked at ([^\n]*)\n([^\n]*)", txt)
        detail = (m.group(1) + " " + m.group(2)) if m else ""
        detail = detail.replace(scratch.dir, "<scratch>")
        return True, "dev", tests_src, detail
    died = re.search(r"test exited abnormally|\(signal: \d+|memory allocation of \d+ bytes failed|stack overflow", txt)
    if died and "kani_concrete_playback_" in txt and not re.search(r"^error(\[E\d+\])?: (?!test failed)(?!.*exited with status)", txt, re.M):
        # the native process running the counterexample was killed (abort, stack overflow, allocation failure):
        # the real code does not survive this input
        return True, "dev", tests_src, "the native test process died on the counterexample: " + died.group(0)
    if not oks:
        return False, "", tests_src, "playback did not run: " + _tail(plog, 15)
    return False, "", tests_src, f"{len(names)} playback test(s) passed natively (dev profile)"


def native_test(scratch, crate, rel_file, test_name, code, logdir, integration=False):
    """mir2smt replay: append a plain #[cfg(test)] module with `code` to `rel_file` of the scratch
    copy (or, with integration=True, write `code` as the integration test file `rel_file`) and run
    it natively (dev profile, real functions).  Returns (failed: bool|None, detail)."""
    os.makedirs(logdir, exist_ok=True)
    path = os.path.join(scratch.src, rel_file)
    if integration:
        os.makedirs(os.path.dirname(path), exist_ok=True)
        with open(path, "w") as fh:
            fh.write(code)
        target = ["--test", os.path.splitext(os.path.basename(rel_file))[0]]
    else:
        with open(path, "a") as fh:
            fh.write("\n#[cfg(test)]\nmod kv_native_replay_" + re.sub(r"\W", "_", test_name) + " {\n    #![allow(unused_imports)]\n    use super::*;\n" + code + "\n}\n")
        target = ["--lib"]
    log = os.path.join(logdir, f"native-{test_name}.log")
    env = dict(ENV)
    env.pop("RUSTFLAGS", None)
    with open(log, "w") as fh:
        try:
            subprocess.run(["cargo", "test", "--offline", "-p", crate] + target + ["--target-dir", os.path.join(scratch.dir, "target-native"), test_name],
                           cwd=scratch.src, env=env, stdout=fh, stderr=subprocess.STDOUT, timeout=1800)
        except subprocess.TimeoutExpired:
            return None, "native test timed out"
    txt = open(log, errors="replace").read()
    if re.search(r"test \S*" + re.escape(test_name) + r" \.\.\. FAILED", txt):
        m = re.search(r"panicked at ([^\n]*)\n([^\n]*)", txt)
        return True, (m.group(1) + " " + m.group(2)) if m else "test failed"
    if re.search(r"test \S*" + re.escape(test_name) + r" \.\.\. ok", txt):
        return False, "native test passed"
    return None, "native test did not run: " + _tail(log, 12)
