"""mir2smt, part 1: parse rustc's `-Zunpretty=mir` text and execute loop-free MIR symbolically.

Terms are nested tuples:
  ('c', text, sort)            constant          sort in {'int','real','bool','U'}
  ('v', name, sort)            symbolic variable
  ('app', fname, args, sort)   operator / callee applied to argument terms (uninterpreted unless a model rewrites it)
  ('tup', items)               tuple / aggregate
  ('ref', root)                reference to the cell `root` of the store (a local or a parameter cell)
Everything the executor does not understand is an uninterpreted 'app', so a change in /repo that
introduces new constructs shows up as a different term (a failed comparison), never as a silent pass.
"""
import re, subprocess, os, time

# ----------------------------------------------------------------------------------------------
# dump + parse
# ----------------------------------------------------------------------------------------------


def dump(scratch_src, package, kind, target_dir, out):
    """kind: '--lib' or '--bin sfs'"""
    cmd = ["cargo", "+nightly", "rustc", "--offline", "-p", package] + kind.split() + ["--target-dir", target_dir, "--",
           "-Zunpretty=mir", "-C", "debug-assertions=off", "-C", "overflow-checks=on"]
    env = dict(os.environ, CARGO_NET_OFFLINE="true")
    env.pop("RUSTFLAGS", None)
    with open(out, "w") as fo, open(out + ".err", "w") as fe:
        p = subprocess.run(cmd, cwd=scratch_src, stdout=fo, stderr=fe, env=env, timeout=1800)
    if p.returncode != 0 or os.path.getsize(out) < 1000:
        raise RuntimeError("MIR dump failed: " + open(out + ".err").read()[-800:])
    return out


class Fn:
    def __init__(self, name, header, body):
        self.name = name
        self.header = header
        self.params = []      # [(local, type)]
        self.ret = ""
        self.types = {}       # local -> type text
        self.blocks = {}      # bb -> (stmts, terminator, cleanup)
        self.debug = {}       # debug name -> local
        self.text = body
        self._parse(header, body)

    def _parse(self, header, body):
        m = re.match(r"fn (.*?)\((.*)\) -> (.*) \{$", header, re.S)
        if m:
            self.ret = m.group(3).strip()
            for p in split_top(m.group(2)):
                if ":" in p:
                    l, t = p.split(":", 1)
                    self.params.append((l.strip(), t.strip()))
                    self.types[l.strip()] = t.strip()
        for m in re.finditer(r"^\s*let (?:mut )?(_\d+): (.*);$", body, re.M):
            self.types[m.group(1)] = m.group(2)
        for m in re.finditer(r"^\s*debug (\S+) => (.*);$", body, re.M):
            self.debug[m.group(1)] = m.group(2)
        for m in re.finditer(r"\n    (bb\d+)( \(cleanup\))?: \{\n(.*?)\n    \}", body, re.S):
            lines = [l.strip() for l in m.group(3).split("\n")]
            lines = [l for l in lines if l and not l.startswith(("StorageLive", "StorageDead", "FakeRead", "nop", "PlaceMention", "Retag", "Coverage", "ConstEvalCounter", "//"))]
            # join multi-line statements (rare)
            stmts = []
            for l in lines:
                stmts.append(l[:-1] if l.endswith(";") else l)
            self.blocks[m.group(1)] = (stmts[:-1], stmts[-1] if stmts else "return", bool(m.group(2)))


CONSTS = {}


def parse_file(path):
    src = open(path).read()
    fns = []
    consts = {}
    for m in re.finditer(r"^const ([^\n]*): ([^=\n]*?) = (?:const ([^;\n]*);|\{\n(.*?)\n\})", src, re.M | re.S):
        val = m.group(3)
        pointee = None
        if val is None and m.group(4):
            # promoted `&T`:  _1 = const X; _0 = &_1;
            mm = re.findall(r"_1 = const ([^;\n]*);", m.group(4))
            if len(mm) == 1 and re.search(r"_0 = &_1;", m.group(4)):
                pointee = mm[0]
            mm0 = re.findall(r"_0 = const ([^;\n]*);", m.group(4))
            if len(mm0) == 1:
                val = mm0[0]
        consts[m.group(1).strip()] = (m.group(2).strip(), val, pointee)
    CONSTS[path] = consts
    for m in re.finditer(r"^fn (.*?) \{\n(.*?)\n\}\n", src, re.S | re.M):
        header = "fn " + m.group(1) + " {"
        nm = re.match(r"(.*?)\(", m.group(1), re.S)
        # the name is everything before the parameter list; impl locations contain ':' and '<' but no '('
        name = header[3:header.index("(_") if "(_" in header else header.index("(")]
        fns.append(Fn(name.strip(), header, m.group(2)))
        fns[-1].consts = consts
    return fns


def norm_name(name):
    """function name without the line/column of `<impl at file:line:col: line:col>`"""
    return re.sub(r"<impl at ([^:>]+):[^>]*>", r"<impl \1>", name)


def find_fn(fns, pattern, params=None, contains=None):
    """unique function whose normalised name matches the regex (and whose parameter types contain
    `params`, and whose body contains every string of `contains`)"""
    hits = [f for f in fns if re.search(pattern, norm_name(f.name))]
    if contains:
        hits = [f for f in hits if all(c in f.text for c in contains)]
    if params is not None:
        hits = [f for f in hits if all(p in " ".join(t for _, t in f.params) + " -> " + f.ret for p in params)]
    if len(hits) != 1:
        raise LookupError(f"expected one function for /{pattern}/ {params or ''}, found {[norm_name(h.name) for h in hits][:6]}")
    return hits[0]


def split_top(s, sep=","):
    out, depth, cur = [], 0, ""
    i = 0
    instr = False
    while i < len(s):
        ch = s[i]
        if instr:
            cur += ch
            if ch == "\\":
                cur += s[i + 1]
                i += 1
            elif ch == '"':
                instr = False
        else:
            if ch == '"':
                instr = True
                cur += ch
            elif ch in "([{":
                depth += 1
                cur += ch
            elif ch in ")]}":
                depth -= 1
                cur += ch
            elif ch == "<" and (i + 1 < len(s) and s[i + 1] not in " =") and (i == 0 or s[i - 1] != " "):
                depth += 1
                cur += ch
            elif ch == ">" and i > 0 and s[i - 1] not in "-= " and depth > 0:
                depth -= 1
                cur += ch
            elif ch == sep and depth == 0:
                out.append(cur.strip())
                cur = ""
            else:
                cur += ch
        i += 1
    if cur.strip():
        out.append(cur.strip())
    return out


def split_call(term):
    """`DEST = FUNC(ARGS) -> TAIL` or `FUNC(ARGS) -> TAIL`: the argument list is the parenthesised
    group that ends right before ` -> ` (function names contain parentheses of their own: `Result<(), E>`)"""
    k = term.rfind(") -> ")
    if k < 0:
        return None
    head, tail = term[:k + 1], term[k + 5:]
    depth = 0
    i = len(head) - 1
    instr = False
    while i >= 0:
        ch = head[i]
        if ch == '"' and (i == 0 or head[i - 1] != "\\"):
            instr = not instr
        elif not instr:
            if ch == ")":
                depth += 1
            elif ch == "(":
                depth -= 1
                if depth == 0:
                    break
        i -= 1
    if i < 0:
        return None
    pre, args = head[:i], head[i + 1:-1]
    dest = None
    m = re.match(r"((?:_\d+|\(.*?\))) = (.*)$", pre, re.S)
    if m and not pre.startswith("<"):
        dest, fname = m.group(1).strip(), m.group(2)
    else:
        fname = pre
    return dest, fname, args, tail


# ----------------------------------------------------------------------------------------------
# terms
# ----------------------------------------------------------------------------------------------

INT_TYPES = {"usize": (0, 2 ** 64 - 1), "u64": (0, 2 ** 64 - 1), "u32": (0, 2 ** 32 - 1), "u16": (0, 65535), "u8": (0, 255),
             "isize": (-2 ** 63, 2 ** 63 - 1), "i64": (-2 ** 63, 2 ** 63 - 1), "i32": (-2 ** 31, 2 ** 31 - 1), "i16": (-32768, 32767), "i8": (-128, 127)}


def sort_of_type(t):
    t = t.strip()
    if t in INT_TYPES or t == "u128" or t == "char":
        return "int"
    if t in ("f64", "f32"):
        return "real"
    if t == "bool":
        return "bool"
    return "U"


def C(text, sort):
    return ("c", str(text), sort)


def V(name, sort):
    return ("v", name, sort)


def APP(f, args, sort="U"):
    return ("app", f, tuple(args), sort)


def sort(t):
    if t[0] in ("c", "v"):
        return t[2]
    if t[0] == "app":
        return t[3]
    return "U"


def show(t, depth=0):
    if t[0] == "c":
        return t[1]
    if t[0] == "v":
        return t[1]
    if t[0] == "app":
        return t[1] + "(" + ", ".join(show(a, depth + 1) for a in t[2]) + ")"
    if t[0] == "tup":
        return "(" + ", ".join(show(a, depth + 1) for a in t[1]) + ")"
    if t[0] == "ref":
        return "&" + str(t[1])
    return str(t)


# ----------------------------------------------------------------------------------------------
# symbolic execution
# ----------------------------------------------------------------------------------------------


class State:
    def __init__(self):
        self.env = {}       # cell -> term
        self.pc = []        # [(term, ('eq', v) | ('notin', (v,...)))]
        self.vcs = []       # [(message, cond_term, expected_bool, pc_snapshot)]
        self.events = []    # [(fname, args)] calls in order
        self.prov = {}      # local holding a derived &mut -> root cell
        self.side = []      # extra constraint terms introduced by models (e.g. sqrt)
        self.visited = []

    def clone(self):
        s = State()
        s.env = dict(self.env)
        s.pc = list(self.pc)
        s.vcs = list(self.vcs)
        s.events = list(self.events)
        s.prov = dict(self.prov)
        s.side = list(self.side)
        s.visited = list(self.visited)
        return s


class Path:
    def __init__(self, state, end, ret=None, at=None):
        self.state = state
        self.end = end      # 'return' | 'loopback' | 'unreachable' | 'diverge'
        self.ret = ret
        self.at = at


class Exec:
    def __init__(self, fn, models=None, max_paths=5000):
        self.fn = fn
        self.models = models or []     # [(regex, handler(exec, state, fname, args, dest_type) -> term or None)]
        self.paths = []
        self.max_paths = max_paths
        self.fresh = 0
        self.ctype = {}
        self.cpointee = {}

    # ---- places ------------------------------------------------------------------------------
    def parse_place(self, p):
        p = p.strip()
        if re.fullmatch(r"_\d+", p):
            return p, []
        m = re.fullmatch(r"\(\*(.+)\)", p)
        if m:
            b, pr = self.parse_place(m.group(1))
            return b, pr + [("deref",)]
        m = re.fullmatch(r"\((.+) as (\w+)\)", p)
        if m:
            b, pr = self.parse_place(m.group(1))
            return b, pr + [("variant", m.group(2))]
        if p.startswith("(") and p.endswith(")"):
            inner = p[1:-1]
            # (PLACE.N: TYPE)
            depth = 0
            for i, ch in enumerate(inner):
                if ch in "([{":
                    depth += 1
                elif ch in ")]}":
                    depth -= 1
                elif ch == ":" and depth == 0 and inner[i + 1:i + 2] == " ":
                    left = inner[:i]
                    m2 = re.fullmatch(r"(.+)\.(\d+)", left, re.S)
                    if m2:
                        b, pr = self.parse_place(m2.group(1))
                        return b, pr + [("field", int(m2.group(2)))]
                    break
        m = re.fullmatch(r"(.+)\[(.+)\]", p, re.S)
        if m:
            b, pr = self.parse_place(m.group(1))
            return b, pr + [("index", m.group(2).strip())]
        raise ValueError("place? " + p)

    def read_cell(self, st, cell):
        if cell not in st.env:
            st.env[cell] = V("undef_" + cell, sort_of_type(self.fn.types.get(cell, "")))
        return st.env[cell]

    def project(self, st, t, x):
        if x[0] == "deref":
            if t[0] == "ref":
                return self.read_cell(st, t[1])
            if t[0] == "c" and t[1] in self.cpointee:
                return self.cpointee[t[1]]
            return APP("deref", [t])
        if x[0] == "field":
            if t[0] == "tup" and x[1] < len(t[1]):
                return t[1][x[1]]
            if t[0] == "app" and t[1] == "setfield" and t[2][1] == C(x[1], "int"):
                return t[2][2]
            if t[0] == "app" and t[1] == "setfield":
                return self.project(st, t[2][0], x)
            if t[0] == "app" and t[1].startswith("ctor:") and x[1] < len(t[2]):
                return t[2][x[1]]
            return APP("field", [t, C(x[1], "int")], "U")
        if x[0] == "variant":
            if t[0] == "app" and t[1] == "ctor:" + x[1]:
                return t
            return APP("as_" + x[1], [t])
        if x[0] == "index":
            idx = x[1]
            it = self.read_cell(st, idx) if re.fullmatch(r"_\d+", idx) else C(idx, "int")
            return APP("select", [t, it])
        raise ValueError(x)

    def read_place(self, st, p, want_sort=None):
        b, pr = self.parse_place(p)
        t = self.read_cell(st, b)
        for x in pr:
            t = self.project(st, t, x)
        if want_sort and t[0] == "app" and t[3] == "U" and t[1] in ("field", "select", "deref"):
            t = (t[0], t[1], t[2], want_sort)
        return t

    def root_of(self, st, b, pr):
        """cell that a write through place (b, pr) finally lands in, and the projections below it"""
        cell = b
        rest = list(pr)
        while rest and rest[0][0] == "deref":
            t = self.read_cell(st, cell)
            if t[0] == "ref":
                cell = t[1]
                rest = rest[1:]
            elif cell in st.prov:
                # a derived reference (into a sub-place, or the result of a call that took &mut):
                # the write goes into the root, below the recorded prefix
                root, pre = st.prov[cell]
                return root, list(pre) + rest[1:]
            else:
                return cell, rest
        return cell, rest

    def write_place(self, st, p, val):
        b, pr = self.parse_place(p)
        cell, rest = self.root_of(st, b, pr)
        if not rest:
            st.env[cell] = val
            return
        old = self.read_cell(st, cell)
        st.env[cell] = self.update(st, old, rest, val)

    def update(self, st, old, rest, val):
        x = rest[0]
        if len(rest) == 1:
            inner = val
        else:
            inner = self.update(st, self.project(st, old, x) if x[0] != "via" else APP("deref", [x[1]]), rest[1:], val)
        if x[0] == "field":
            if old[0] == "tup":
                items = list(old[1])
                while len(items) <= x[1]:
                    items.append(V("undef", "U"))
                items[x[1]] = inner
                return ("tup", tuple(items))
            return APP("setfield", [old, C(x[1], "int"), inner])
        if x[0] == "via":
            return APP("store", [old, x[1], inner])
        if x[0] == "index":
            idx = x[1]
            it = self.read_cell(st, idx) if re.fullmatch(r"_\d+", idx) else C(idx, "int")
            return APP("store_index", [old, it, inner])
        if x[0] == "variant":
            return inner
        if x[0] == "deref":
            return APP("store_deref", [old, inner])
        raise ValueError(rest)

    # ---- operands / rvalues ------------------------------------------------------------------
    def const(self, s):
        s = s.strip()
        m = re.fullmatch(r"(-?[\d_]+)_?(usize|u64|u32|u16|u8|isize|i64|i32|i16|i8|u128)", s)
        if m:
            return C(m.group(1).replace("_", ""), "int")
        m = re.fullmatch(r"(-?[\d.]+(?:E[+-]?\d+)?)(f64|f32)", s)
        if m:
            v = m.group(1)
            if "E" in v or "e" in v:
                v = repr(float(v))
            return C(v if "." in v else v + ".0", "real")
        if s in ("true", "false"):
            return C(s, "bool")
        if re.fullmatch(r"[+-]?inf(f64)?|NaN(f64)?|\+?inf_f64", s, re.I):
            return C(s, "real")
        consts = getattr(self.fn, "consts", {})
        m = re.search(r"::promoted\[(\d+)\]$", s)
        if m:
            key = self.fn.name.split("::{closure")[0] + f"::promoted[{m.group(1)}]"
            if key in consts:
                self.ctype[s] = consts[key][0]
                if consts[key][2] is not None:
                    self.cpointee[s] = self.const(consts[key][2])
            return C(s, "U")
        last = s.split("::")[-1]
        hits = [v for k, v in consts.items() if k == last or k.endswith("::" + last)]
        if len(hits) == 1 and hits[0][1] is not None and hits[0][1] != s:
            return self.const(hits[0][1])
        return C(s, "U")

    def operand(self, st, s, want=None):
        s = s.strip()
        if s.startswith("const "):
            return self.const(s[6:])
        s = re.sub(r"^(no_retag )?(copy|move) ", "", s)
        if re.match(r"[_(]", s):
            return self.read_place(st, s, want)
        return C(s, "U")    # function item etc.

    def dest_sort(self, dest):
        try:
            b, pr = self.parse_place(dest)
        except ValueError:
            return "U"
        if not pr:
            return sort_of_type(self.fn.types.get(b, ""))
        m = re.search(r": ([^:()]+)\)$", dest.strip())
        if m:
            return sort_of_type(m.group(1))
        return "U"

    BIN = {"Add", "Sub", "Mul", "Div", "Rem", "Lt", "Le", "Gt", "Ge", "Eq", "Ne", "BitAnd", "BitOr", "BitXor", "Shl", "Shr", "Offset",
           "AddUnchecked", "SubUnchecked", "MulUnchecked", "Cmp"}
    CMP = {"Lt", "Le", "Gt", "Ge", "Eq", "Ne"}

    def rvalue(self, st, dest, rv):
        rv = rv.strip()
        dsort = self.dest_sort(dest)
        m = re.fullmatch(r"(\w+)WithOverflow\((.*)\)", rv, re.S)
        if m:
            a, b = [self.operand(st, x) for x in split_top(m.group(2))]
            op = m.group(1)
            ty = self.tuple_elem_type(dest)
            r = APP(op, [a, b], "int")
            return ("tup", (r, APP("overflows", [r, C(ty, "U")], "bool")))
        m = re.fullmatch(r"(\w+)\((.*)\)", rv, re.S)
        if m and m.group(1) in self.BIN:
            a, b = [self.operand(st, x) for x in split_top(m.group(2))]
            op = m.group(1).replace("Unchecked", "")
            s = "bool" if op in self.CMP else (sort(a) if sort(a) != "U" else sort(b))
            if s == "U":
                s = dsort
            return APP(op, [a, b], s)
        m = re.fullmatch(r"(Not|Neg)\((.*)\)", rv, re.S)
        if m:
            a = self.operand(st, m.group(2))
            return APP(m.group(1), [a], sort(a) if sort(a) != "U" else dsort)
        m = re.fullmatch(r"discriminant\((.*)\)", rv, re.S)
        if m:
            t = self.read_place(st, m.group(1))
            return APP("discriminant", [t], "int")
        m = re.fullmatch(r"(?:Len|PtrMetadata)\((.*)\)", rv, re.S)
        if m:
            t = self.operand(st, m.group(1))
            ty = None
            if t[0] == "c":
                ty = self.ctype.get(t[1])
            elif t[0] == "ref":
                ty = self.fn.types.get(t[1])
            if ty:
                mm = re.search(r"\[[^;\[\]]+; (\d+)\]$", ty)
                if mm:
                    return C(mm.group(1), "int")
            return APP("len", [t], "int")
        m = re.fullmatch(r"&(?:raw (?:const|mut) )?(?:fake shallow |\(fake\) )?(mut )?(.*)", rv, re.S)
        if m and not rv.startswith("&&"):
            b, pr = self.parse_place(m.group(2))
            cell, rest = self.root_of(st, b, pr)
            if not rest:
                return ("ref", cell)
            # reference into a sub-place: remember the root so that later stores / &mut calls update it
            t = APP("refto", [self.read_place(st, m.group(2))])
            return ("subref", cell, tuple(rest), t)
        m = re.fullmatch(r"(.*) as (.*?) \((\w+(?:\([^)]*\))?)\)", rv, re.S)
        if m:
            a = self.operand(st, m.group(1))
            kind = m.group(3)
            tsort = sort_of_type(m.group(2))
            if kind == "IntToFloat":
                return APP("to_real", [a], "real")
            if kind in ("IntToInt",):
                return APP("int_cast", [a, C(m.group(2).strip(), "U")], "int")
            if kind.startswith("PointerCoercion") or kind in ("Transmute", "PtrToPtr"):
                return a
            return APP("cast_" + kind, [a], tsort)
        if rv.startswith(("copy ", "move ", "const ", "no_retag ")):
            return self.operand(st, rv, dsort if dsort != "U" else None)
        # aggregates
        if rv.startswith("(") and rv.endswith(")"):
            return ("tup", tuple(self.operand(st, x) for x in split_top(rv[1:-1])))
        if rv.startswith("[") and rv.endswith("]"):
            inner = rv[1:-1]
            if ";" in inner and not inner.strip().startswith(("copy", "move", "const")) is False:
                pass
            return APP("array", [self.operand(st, x) for x in split_top(inner)])
        m = re.fullmatch(r"([\w:<>, '&\[\]@{}./#-]+?)\((.*)\)", rv, re.S)
        if m:
            name = re.sub(r"::<.*>", "", m.group(1).strip())
            variant = name.split("::")[-1]
            return APP("ctor:" + variant, [self.operand(st, x) for x in split_top(m.group(2))])
        m = re.fullmatch(r"([\w:<>, '&\[\]]+?) \{(.*)\}", rv, re.S)
        if m:
            name = re.sub(r"::<.*>", "", m.group(1).strip())
            fields = []
            for f in split_top(m.group(2)):
                k, v = f.split(":", 1)
                fields.append(self.operand(st, v))
            return APP("ctor:" + name.split("::")[-1], fields)
        if rv.startswith("{closure@") or rv.startswith("{coroutine"):
            # closure aggregate: `{closure@file:l:c: l:c} { name: operand, ... }` -> captures as arguments
            m = re.fullmatch(r"(\{[^}]*\}) \{(.*)\}", rv, re.S)
            loc = re.sub(r":\d+:\d+: \d+:\d+", "", m.group(1) if m else rv)
            if m and m.group(2).strip():
                names, vals = [], []
                for f in split_top(m.group(2)):
                    k, v = f.split(":", 1)
                    names.append(k.strip())
                    vals.append(self.operand(st, v))
                return APP("closure" + loc + "{" + ",".join(names) + "}", vals)
            return C(loc, "U")
        m = re.fullmatch(r"([\w:<>, ']+)", rv)
        if m:   # unit-like enum variant / struct
            name = re.sub(r"::<.*>", "", rv)
            return APP("ctor:" + name.split("::")[-1], [])
        # unit-like variant / constant with arbitrary generic arguments, e.g. Option::<&[(&str, &str)]>::None
        name = re.sub(r"::<.*>", "", rv)
        if re.fullmatch(r"[\w:]+", name):
            return APP("ctor:" + name.split("::")[-1], [])
        raise ValueError("rvalue? " + rv)

    def tuple_elem_type(self, dest):
        try:
            b, pr = self.parse_place(dest)
            t = self.fn.types.get(b, "")
            m = re.match(r"\((\w+), bool\)", t)
            return m.group(1) if m else "usize"
        except ValueError:
            return "usize"

    # ---- control -----------------------------------------------------------------------------
    def run(self, init_env, start="bb0"):
        st = State()
        st.env = dict(init_env)
        self._go(st, start)
        return self.paths

    def _consistent(self, st, t, cons):
        """add constraint t==v / t notin vs to the path condition if consistent"""
        if t[0] == "c":
            val = t[1]
            if cons[0] == "eq":
                return val == cons[1] or (val in ("true", "false") and {"true": "1", "false": "0"}[val] == cons[1])
            return val not in cons[1] and not (val in ("true", "false") and {"true": "1", "false": "0"}[val] in cons[1])
        # discriminant of a freshly constructed variant is known when a model says so
        for (u, c) in st.pc:
            if u == t:
                if c[0] == "eq" and cons[0] == "eq" and c[1] != cons[1]:
                    return False
                if c[0] == "eq" and cons[0] == "notin" and c[1] in cons[1]:
                    return False
                if c[0] == "notin" and cons[0] == "eq" and cons[1] in c[1]:
                    return False
        st.pc.append((t, cons))
        return True

    def _go(self, st, bb):
        while True:
            if len(self.paths) > self.max_paths:
                raise RuntimeError("too many paths")
            if bb in st.visited:
                self.paths.append(Path(st, "loopback", at=bb))
                return
            st.visited.append(bb)
            stmts, term, cleanup = self.fn.blocks[bb]
            for s in stmts:
                self.statement(st, s)
            # terminator
            if term.startswith("goto -> "):
                bb = term[8:].strip()
                continue
            if term == "return":
                self.paths.append(Path(st, "return", ret=st.env.get("_0")))
                return
            if term in ("unreachable", "resume") or term.startswith(("resume", "abort", "terminate")):
                self.paths.append(Path(st, "unreachable"))
                return
            m = re.fullmatch(r"switchInt\((.*)\) -> \[(.*)\]", term, re.S)
            if m:
                t = self.operand(st, m.group(1))
                arms = []
                for a in split_top(m.group(2)):
                    k, v = a.split(":")
                    arms.append((k.strip(), v.strip()))
                vals = tuple(k for k, _ in arms if k != "otherwise")
                for k, target in arms:
                    s2 = st.clone()
                    cons = ("notin", vals) if k == "otherwise" else ("eq", k)
                    if self._consistent(s2, t, cons):
                        self._go(s2, target)
                return
            m = re.fullmatch(r"drop\((.*)\) -> \[return: (bb\d+).*\]", term, re.S)
            if m:
                bb = m.group(2)
                continue
            m = re.fullmatch(r"assert\((.*)\) -> \[success: (bb\d+).*\]", term, re.S)
            if m:
                parts = split_top(m.group(1))
                cond = parts[0].strip()
                expected = True
                if cond.startswith("!"):
                    expected = False
                    cond = cond[1:]
                ct = self.operand(st, cond)
                msg = parts[1].strip().strip('"') if len(parts) > 1 else ""
                st.vcs.append((msg, ct, expected, list(st.pc)))
                bb = m.group(2)
                continue
            cm = split_call(term)
            if cm:
                dest, fname, args, tail = cm
                nxt = re.search(r"return: (bb\d+)", tail)
                self.call(st, dest, fname.strip(), split_top(args))
                if not nxt:
                    self.paths.append(Path(st, "diverge"))
                    return
                bb = nxt.group(1)
                continue
            raise ValueError("terminator? " + term)

    def statement(self, st, s):
        if s.startswith(("StorageLive", "StorageDead", "nop", "Deinit", "SetDiscriminant", "AscribeUserType", "Assume", "assume")):
            if s.startswith("SetDiscriminant") or s.startswith("Deinit"):
                return
            return
        m = re.match(r"(.*?) = (.*)$", s, re.S)
        if not m:
            raise ValueError("statement? " + s)
        dest, rv = m.group(1).strip(), m.group(2).strip()
        val = self.rvalue(st, dest, rv)
        if val[0] == "subref":
            b, pr = self.parse_place(dest)
            if not pr:
                st.prov[b] = (val[1], tuple(val[2]))
                st.env[b] = val[3]
                return
            val = val[3]
        self.write_place(st, dest, val)
        # a reference that travels through moves / Option payloads keeps pointing into its root
        m2 = re.fullmatch(r"(?:no_retag )?(?:copy|move) (.*)", rv)
        if m2 and re.fullmatch(r"_\d+", dest):
            try:
                b2, pr2 = self.parse_place(m2.group(1))
            except ValueError:
                return
            if b2 in st.prov and all(x[0] in ("field", "variant") for x in pr2):
                st.prov[dest] = st.prov[b2]

    def call(self, st, dest, fname, argtexts):
        fshort = re.sub(r"<impl at ([^:>]+):[^>]*>", r"<impl \1>", fname)
        args = []
        mut_roots = []
        for i, a in enumerate(argtexts):
            t = self.operand(st, a)
            a_s = re.sub(r"^(no_retag )?(copy|move) ", "", a.strip())
            root = None
            if t[0] == "ref":
                root = (t[1], ())
                args.append(self.read_cell(st, t[1]))
            else:
                if re.fullmatch(r"_\d+", a_s) and a_s in st.prov:
                    root = st.prov[a_s]
                args.append(t)
            ty = ""
            if re.fullmatch(r"_\d+", a_s):
                ty = self.fn.types.get(a_s, "")
            if root is not None and ty.startswith("&mut"):
                mut_roots.append((i, root))
        dsort = self.dest_sort(dest) if dest else "U"
        st.events.append((fshort, tuple(args)))
        result = None
        for pat, handler in self.models:
            if re.search(pat, fshort):
                result = handler(self, st, fshort, args, dsort)
                if result is not None:
                    break
        if result is None:
            result = APP(fshort, args, dsort)
            # a callee that takes &mut may change what the reference points to (and only that)
            for i, (cell, pre) in mut_roots:
                new = APP(fshort + "!mut" + str(i), args, "U")
                if pre:
                    st.env[cell] = self.update(st, self.read_cell(st, cell), list(pre), new)
                else:
                    st.env[cell] = new
        if dest:
            b, pr = self.parse_place(dest)
            dty = self.fn.types.get(b, "") if not pr else ""
            if mut_roots and "&mut" in dty and not pr:
                cell, pre = mut_roots[0][1]
                st.prov[b] = (cell, tuple(pre) + (("via", result),))
            self.write_place(st, dest, result)


# ----------------------------------------------------------------------------------------------
# SMT back end
# ----------------------------------------------------------------------------------------------


class Smt:
    """collects declarations while translating terms of sorts int/real/bool (U terms become
    uninterpreted constants named after their printed form)"""

    def __init__(self, mul_abstract=None):
        self.decls = {}
        self.funs = {}
        self.extra = []
        # (bound): integer products of two non-constant operands, each known to lie in [0, bound],
        # are replaced by a fresh variable in [0, bound^2] (non-linear integer arithmetic is where
        # z3 and cvc5 give up; the abstraction is sound for proving the absence of overflow)
        self.mul_abstract = mul_abstract
        self.nmul = 0

    def sym(self, name, s):
        n = "|" + name.replace("|", "!").replace("\\", "/") + "|"
        self.decls[n] = {"int": "Int", "real": "Real", "bool": "Bool", "U": "U"}[s]
        return n

    def tr(self, t):
        k = t[0]
        if k == "c":
            if t[2] == "int":
                v = int(t[1])
                return str(v) if v >= 0 else f"(- {-v})"
            if t[2] == "real":
                v = t[1]
                return v if not v.startswith("-") else f"(- {v[1:]})"
            if t[2] == "bool":
                return t[1]
            return self.sym("const " + t[1], "U")
        if k == "v":
            return self.sym(t[1], t[2])
        if k == "app":
            f, args, s = t[1], t[2], t[3]
            ops = {"Add": "+", "Sub": "-", "Mul": "*", "Lt": "<", "Le": "<=", "Gt": ">", "Ge": ">=", "Eq": "=", "Ne": "distinct"}
            if f == "Mul" and s == "int" and self.mul_abstract and args[0][0] != "c" and args[1][0] != "c":
                self.nmul += 1
                v = f"|mul{self.nmul}|"
                self.decls[v] = "Int"
                a, b = self.tr(args[0]), self.tr(args[1])
                B = self.mul_abstract
                self.extra.append(f"(and (>= {v} 0) (<= {v} {B * B}) (=> (and (<= {a} 1) (>= {a} 0)) (<= {v} {b})) (=> (= {a} 0) (= {v} 0)))")
                return v
            if f in ops and len(args) == 2:
                return f"({ops[f]} {self.tr(args[0])} {self.tr(args[1])})"
            if f == "Div":
                if s == "real":
                    return f"(/ {self.tr(args[0])} {self.tr(args[1])})"
                return f"(div {self.tr(args[0])} {self.tr(args[1])})"
            if f == "Rem":
                return f"(mod {self.tr(args[0])} {self.tr(args[1])})"
            if f == "Not":
                return f"(not {self.tr(args[0])})"
            if f == "Neg":
                return f"(- {self.tr(args[0])})"
            if f == "to_real":
                return f"(to_real {self.tr(args[0])})"
            if f == "int_cast":
                return self.tr(args[0])
            if f == "overflows":
                lo, hi = INT_TYPES.get(args[1][1], (0, 2 ** 64 - 1))
                x = self.tr(args[0])
                los = str(lo) if lo >= 0 else f"(- {-lo})"
                return f"(or (< {x} {los}) (> {x} {hi}))"
            if f == "ite":
                return f"(ite {self.tr(args[0])} {self.tr(args[1])} {self.tr(args[2])})"
            # uninterpreted function over the translated arguments
            if s in ("int", "real", "bool") and all(sort(a) in ("int", "real", "bool") for a in args):
                fn = "|" + f.replace("|", "!") + "|"
                sig = " ".join({"int": "Int", "real": "Real", "bool": "Bool"}[sort(a)] for a in args)
                self.funs[fn] = (sig, {"int": "Int", "real": "Real", "bool": "Bool"}[s])
                if not args:
                    return f"{fn}"
                return f"({fn} {' '.join(self.tr(a) for a in args)})"
            return self.sym(show(t), s)
        return self.sym(show(t), "U")

    def header(self):
        out = ["(set-logic ALL)", "(declare-sort U 0)"]
        for n, s in sorted(self.decls.items()):
            out.append(f"(declare-const {n} {s})")
        for n, (sig, r) in sorted(self.funs.items()):
            if sig:
                out.append(f"(declare-fun {n} ({sig}) {r})")
            else:
                out.append(f"(declare-const {n} {r})")
        return out


def solve(script, timeout=60, solver="z3"):
    """returns ('sat'|'unsat'|'unknown'|'error', raw_output, seconds)"""
    t0 = time.time()
    if solver == "z3":
        cmd = ["z3", f"-T:{timeout}", "-in"]
    else:
        cmd = ["cvc5", "--lang", "smt2", f"--tlimit={timeout * 1000}", "--produce-models", "--nl-cov"]
    try:
        p = subprocess.run(cmd, input=script, capture_output=True, text=True, timeout=timeout + 30)
        out = (p.stdout + p.stderr).strip()
    except subprocess.TimeoutExpired:
        return "unknown", "timeout", time.time() - t0
    dt = time.time() - t0
    first = out.split("\n", 1)[0].strip()
    if first == "unsat" and re.fullmatch(r"unsat\s*(\(error \"[^\n]*model is not available[^\n]*\"\)\s*)*", out):
        # (get-value) after an unsat answer: the only error allowed
        return "unsat", out, dt
    if "(error" in out:
        return "error", out, dt
    if first in ("sat", "unsat", "unknown"):
        return first, out, dt
    return "unknown", out, dt
