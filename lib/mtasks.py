"""mir2smt, part 2: the verification tasks (numeric identities / overflow VCs, glue path terms).

Each task returns a list of obligations
  dict(name, status in {'holds','violation','inconclusive'}, detail, functions, bounds, queries, time_s,
       solver_time_s, nonvacuous, sample_query, model)
"""
import os, re, time, json
import mir
from mir import C, V, APP, sort, show

_CACHE = {}


def fns_for(scratch, crate):
    key = (scratch.dir, crate)
    if key not in _CACHE:
        out = os.path.join(scratch.dir, f"{crate}.mir")
        kind = "--lib" if crate == "sfs-core" else "--bin sfs"
        mir.dump(scratch.src, crate, kind, os.path.join(scratch.dir, "target-mir"), out)
        _CACHE[key] = mir.parse_file(out)
    return _CACHE[key]


# ------------------------------------------------------------------------------------------------
# helpers
# ------------------------------------------------------------------------------------------------

R = lambda x: C(x, "real")
I = lambda x: C(x, "int")


def q(smt, asserts, get_model=None):
    lines = smt.header() + [f"(assert {a})" for a in asserts] + ["(check-sat)"]
    if get_model:
        lines.append("(get-value (" + " ".join(get_model) + "))")
    return "\n".join(lines) + "\n"


class Ob:
    def __init__(self, name, functions, bounds):
        self.d = dict(name=name, status="holds", detail="", functions=functions, bounds=bounds, queries=0, time_s=0.0,
                      solver_time_s=0.0, nonvacuous=False, sample_query="", model=None)
        self.t0 = time.time()

    def run(self, script, expect, timeout=60, cross=False):
        """expect 'unsat' (property) or 'sat' (vacuity twin).  Returns solver verdict."""
        r, out, dt = mir.solve(script, timeout)
        self.d["queries"] += 1
        self.d["solver_time_s"] = round(self.d["solver_time_s"] + dt, 3)
        if not self.d["sample_query"] and expect == "unsat":
            self.d["sample_query"] = script
        if r == "error":
            self.fail("inconclusive", "solver error: " + out[:300])
        elif r == "unknown":
            self.fail("inconclusive", "solver gave no verdict within the time limit: " + out[:200])
        elif cross and r == expect:
            r2, out2, dt2 = mir.solve(script, timeout, solver="cvc5")
            self.d["queries"] += 1
            self.d["solver_time_s"] = round(self.d["solver_time_s"] + dt2, 3)
            if r2 in ("sat", "unsat") and r2 != r:
                self.fail("inconclusive", f"z3 says {r}, cvc5 says {r2}")
        return r, out

    def fail(self, status, detail, model=None):
        order = {"holds": 0, "inconclusive": 1, "violation": 2}
        if order[status] >= order[self.d["status"]]:
            self.d["status"] = status
            self.d["detail"] = (self.d["detail"] + " | " if self.d["detail"] and self.d["status"] == status else "") + detail
        if model:
            self.d["model"] = model

    def done(self):
        self.d["time_s"] = round(time.time() - self.t0, 2)
        return self.d


def cond_term(vc):
    msg, ct, expected, pc = vc
    return ct if expected else APP("Not", [ct], "bool")


def pc_terms(pc):
    out = []
    for t, cons in pc:
        if sort(t) == "U":
            continue
        def val(v):
            if sort(t) == "bool":
                return C("true" if v in ("1", "true") else "false", "bool")
            return C(v, "int")
        if cons[0] == "eq":
            out.append(APP("Eq", [t, val(cons[1])], "bool"))
        else:
            for v in cons[1]:
                out.append(APP("Ne", [t, val(v)], "bool"))
    return out


def check_vcs(ob, path, pre_smt, smt_factory, label="", timeout=30, expect_fail=None):
    """every MIR assert on the path must hold under the precondition"""
    for i, vc in enumerate(path.state.vcs):
        smt = smt_factory()
        pre = [smt.tr(t) for t in pc_terms(vc[3])] + [smt.tr(s) for s in path.state.side]
        neg = f"(not {smt.tr(cond_term(vc))})"
        script = q(smt, pre_smt(smt) + pre + [neg], get_model=sorted(n for n in smt.decls if smt.decls[n] != "U")[:8] or None)
        r, out = ob.run(script, "unsat", timeout)
        if r == "sat":
            ob.fail("violation", f"{label}MIR assert #{i} can fail: \"{vc[0][:70]}\"; model: " + " ".join(out.split("\n")[1:])[:300], model=out)


# common callee models ---------------------------------------------------------------------------

def m_var(name, s):
    return lambda ex, st, f, args, ds: V(name, s)


def m_powi(ex, st, f, args, ds):
    if args[1] == I("2"):
        return APP("Mul", [args[0], args[0]], "real")
    return None


def m_sqrt(ex, st, f, args, ds):
    ex.fresh += 1
    v = V(f"sqrt{ex.fresh}", "real")
    st.side.append(APP("Ge", [v, R("0.0")], "bool"))
    st.side.append(APP("Eq", [APP("Mul", [v, v], "real"), args[0]], "bool"))
    return v


def m_pow2(ex, st, f, args, ds):
    if args[1] == I("2"):
        return APP("Mul", [args[0], args[0]], "int")
    return None


def m_binomial2(ex, st, f, args, ds):
    # documented contract of utils::binomial(n, 2) for n >= 2: n (n-1) / 2  (its floating-point
    # evaluation through ln/exp is numerics, outside this engine)
    if args[1] == I("2"):
        n = APP("to_real", [args[0]], "real")
        return APP("Div", [APP("Mul", [n, APP("Sub", [n, R("1.0")], "real")], "real"), R("2.0")], "real")
    return None


STAT_MODELS = [
    (r"Spectrum::<\w+>::elements$", m_var("elements", "int")),
    (r"segregating_sites$", m_var("S", "real")),
    (r"f64>::powi$", m_powi),
    (r"f64>::sqrt$", m_sqrt),
    (r"usize>::pow$", m_pow2),
    (r"^(utils::)?binomial$", m_binomial2),
]

SPEC_PRELUDE = """
(define-fun n () Real (to_real (- |elements| 1)))
(define-fun a1 () Real (|harmonic| (- |elements| 1)))
(define-fun a2 () Real (|p_harmonic| (- |elements| 1) 2))
"""


def spec_script(smt, spec_defs, asserts):
    lines = smt.header() + [SPEC_PRELUDE, spec_defs] + [f"(assert {a})" for a in asserts] + ["(check-sat)"]
    return "\n".join(lines) + "\n"


def need(smt):
    smt.decls["|elements|"] = "Int"
    smt.decls["|S|"] = "Real"
    smt.funs["|harmonic|"] = ("Int", "Real")
    smt.funs["|p_harmonic|"] = ("Int Int", "Real")


# ------------------------------------------------------------------------------------------------
# C06: D-statistic variances and theta weights (all n, real arithmetic)
# ------------------------------------------------------------------------------------------------

def task_d_variances(scratch, tier, seed, logdir):
    fns = fns_for(scratch, "sfs-core")
    out = []
    specs = {
        "fu_li": (["4_usize"], """
(define-fun cn () Real (/ (* 2.0 (- (* n a1) (* 2.0 (- n 1.0)))) (* (- n 1.0) (- n 2.0))))
(define-fun vD () Real (+ 1.0 (* (/ (* a1 a1) (+ a2 (* a1 a1))) (- cn (/ (+ n 1.0) (- n 1.0))))))
(define-fun uD () Real (- (- a1 1.0) vD))
(define-fun var () Real (+ (* uD |S|) (* vD (* |S| |S|))))
(define-fun scale () Real a1)
""", "Fu & Li (1993): sqrt(u_D S + v_D S^2) / a_n (theta form)"),
        "tajima": (["9_usize"], """
(define-fun b1 () Real (/ (+ n 1.0) (* 3.0 (- n 1.0))))
(define-fun b2 () Real (/ (* 2.0 (+ (+ (* n n) n) 3.0)) (* (* 9.0 n) (- n 1.0))))
(define-fun c1 () Real (- b1 (/ 1.0 a1)))
(define-fun c2 () Real (+ (- b2 (/ (+ n 2.0) (* a1 n))) (/ a2 (* a1 a1))))
(define-fun e1 () Real (/ c1 a1))
(define-fun e2 () Real (/ c2 (+ (* a1 a1) a2)))
(define-fun var () Real (+ (* e1 |S|) (* (* e2 |S|) (- |S| 1.0))))
(define-fun scale () Real 1.0)
""", "Tajima (1989): sqrt(e1 S + e2 S (S-1))"),
    }
    for name, (contains, spec, ref) in specs.items():
        ob = Ob(f"d_{name}_variance_identity", [f"stat::d::<impl {name}>::variance"], "all n >= 3 (elements >= 4, <= 2^30), all S >= 0; REAL arithmetic (rounding / inf / NaN outside the claim)")
        try:
            f = mir.find_fn(fns, r"stat/d\.rs>::variance$", contains=contains)
            ex = mir.Exec(f, STAT_MODELS)
            paths = [p for p in ex.run({"_1": ("ref", "$scs"), "$scs": V("scs", "U")}) if p.end == "return"]
            if len(paths) != 1:
                raise RuntimeError(f"expected a single straight-line path, found {len(paths)}")
            p = paths[0]
            def mk():
                s = mir.Smt()
                need(s)
                return s
            pre = lambda s: ["(>= |elements| 4)", "(<= |elements| 1073741824)", "(> a1 0.0)", "(> a2 0.0)", "(>= |S| 0.0)"]
            # (1) overflow / arithmetic VCs
            smt = mk()
            ret = smt.tr(p.ret)
            sides = [smt.tr(s) for s in p.state.side]
            for i, vc in enumerate(p.state.vcs):
                s2 = mk()
                script = spec_script(s2, "", pre(s2) + [s2.tr(t) for t in pc_terms(vc[3])] + [f"(not {s2.tr(cond_term(vc))})"])
                r, o = ob.run(script, "unsat", 30)
                if r == "sat":
                    ob.fail("violation", f"MIR assert #{i} \"{vc[0][:60]}\" can fail for n >= 3: {o[:200]}", model=o)
            # (2) identity with the published estimator
            script = spec_script(smt, spec + "(declare-const ref Real)\n", pre(smt) + sides + ["(>= ref 0.0)", "(= (* ref ref) var)", f"(not (= {ret} (/ ref scale)))"])
            r, o = ob.run(script, "unsat", 120, cross=False)
            if r == "sat":
                ob.fail("violation", f"the value computed by variance() differs from {ref}: {o[:300]}", model=o)
            # (3) vacuity twin: preconditions and a non-negative variance are satisfiable
            s3 = mk()
            s3.tr(p.ret)
            script = spec_script(s3, spec + "(declare-const ref Real)\n", pre(s3) + [s3.tr(s) for s in p.state.side] + ["(>= ref 0.0)", "(= (* ref ref) var)", "(> |S| 1.0)"])
            r, o = ob.run(script, "sat", 60)
            if r == "sat":
                ob.d["nonvacuous"] = True
            elif r == "unsat":
                ob.fail("inconclusive", "vacuity: the preconditions of the identity are unsatisfiable")
        except (LookupError, ValueError, RuntimeError, KeyError) as e:
            ob.fail("inconclusive", f"translator: {type(e).__name__}: {e}")
        out.append(ob.done())
    return out


def task_theta_weights(scratch, tier, seed, logdir):
    fns = fns_for(scratch, "sfs-core")
    out = []
    specs = {
        "tajima": (["binomial"], "(/ (* (to_real |i|) (- (to_real |n|) (to_real |i|))) (/ (* (to_real |n|) (- (to_real |n|) 1.0)) 2.0))", "i (n-i) / C(n,2)", ["(>= |n| 2)", "(<= |n| 4294967296)", "(>= |i| 1)", "(< |i| |n|)"]),
        "watterson": (["harmonic"], "(/ 1.0 (|harmonic| |n|))", "1 / a_n", ["(>= |n| 2)", "(>= |i| 1)", "(< |i| |n|)"]),
    }
    for name, (contains, spec, ref, pre) in specs.items():
        ob = Ob(f"theta_{name}_weight_identity", [f"stat::theta::<impl {name}>::weight"], "all 1 <= i < n <= 2^32; real arithmetic; binomial(n,2) by its contract n(n-1)/2")
        try:
            cands = [f for f in fns if re.search(r"stat/theta\.rs>::weight$", mir.norm_name(f.name)) and all(c in f.text for c in contains) and "unimplemented" not in f.text and "pow" not in f.text]
            if len(cands) != 1:
                raise LookupError(f"weight function for {name}: {len(cands)} candidates")
            f = cands[0]
            ex = mir.Exec(f, STAT_MODELS)
            paths = [p for p in ex.run({"_1": V("i", "int"), "_2": V("n", "int")}) if p.end == "return"]
            if len(paths) != 1:
                raise RuntimeError(f"{len(paths)} paths")
            p = paths[0]
            def mk():
                s = mir.Smt()
                s.decls["|i|"] = "Int"
                s.decls["|n|"] = "Int"
                s.funs["|harmonic|"] = ("Int", "Real")
                return s
            for i, vc in enumerate(p.state.vcs):
                s2 = mk()
                script = q(s2, pre + [f"(not {s2.tr(cond_term(vc))})"])
                r, o = ob.run(script, "unsat", 30)
                if r == "sat":
                    ob.fail("violation", f"MIR assert #{i} \"{vc[0][:60]}\" can fail: {o[:200]}", model=o)
            smt = mk()
            ret = smt.tr(p.ret)
            r, o = ob.run(q(smt, pre + [f"(not (= {ret} {spec}))"]), "unsat", 60)
            if r == "sat":
                ob.fail("violation", f"weight(i, n) differs from {ref}: {o[:300]}", model=o)
            r, o = ob.run(q(smt, pre + [f"(= {ret} {spec})"]), "sat", 60)
            if r == "sat":
                ob.d["nonvacuous"] = True
        except (LookupError, ValueError, RuntimeError, KeyError) as e:
            ob.fail("inconclusive", f"translator: {type(e).__name__}: {e}")
        out.append(ob.done())
    return out


# ------------------------------------------------------------------------------------------------
# C15 / C17: npy Header::write padding arithmetic for every dict length
# ------------------------------------------------------------------------------------------------

def task_header_write_padding(scratch, tier, seed, logdir):
    fns = fns_for(scratch, "sfs-core")
    ob = Ob("header_write_padding", ["array::npy::header::Header::write", "Version::header_len_bytes_len"], "every dict text length L in 0..65000, versions 1/2/3; integer arithmetic exact")
    try:
        f = mir.find_fn(fns, r"npy/header\.rs>::write$", params=["Header"])
        L = V("L", "int")
        HL = V("hl_bytes", "int")

        def m_to_string(ex, st, fn, args, ds):
            return APP("dict_text", [], "U")

        def m_len(ex, st, fn, args, ds):
            return L

        def m_hlb(ex, st, fn, args, ds):
            return HL

        def m_ok(ex, st, fn, args, ds):
            return APP("ctor:Continue", [C("()", "U")])

        events = []

        def m_from_elem(ex, st, fn, args, ds):
            # vec![b' '; pad_len]
            return APP("vec_of_len", [args[1]], "U")

        def m_index_mut(ex, st, fn, args, ds):
            # IndexMut on the pad vector: in bounds iff index < length
            vec, idx = args[0], args[1]
            ln = vec[2][0] if vec[0] == "app" and vec[1] == "vec_of_len" else APP("len", [vec], "int")
            st.vcs.append(("index out of bounds on the padding vector", APP("Lt", [idx, ln], "bool"), True, list(st.pc)))
            return None

        models = [(r"to_string$", m_to_string), (r"String::len$|str::len$", m_len), (r"header_len_bytes_len$", m_hlb),
                  (r"as Try>::branch$", None), (r"from_elem", m_from_elem), (r"IndexMut<usize>>::index_mut$", m_index_mut)]
        models = [(p, h) for p, h in models if h]
        ex = mir.Exec(f, models, max_paths=400)
        paths = ex.run({"_1": ("ref", "$self"), "$self": V("hdr", "U"), "_2": ("ref", "$w"), "$w": V("w", "U")})
        ok_paths = [p for p in paths if p.end == "return"]
        if not ok_paths:
            raise RuntimeError("no returning path")

        def mk():
            s = mir.Smt()
            s.decls["|L|"] = "Int"
            s.decls["|hl_bytes|"] = "Int"
            return s
        pre = ["(>= |L| 0)", "(<= |L| 65000)", "(or (= |hl_bytes| 2) (= |hl_bytes| 4))"]
        nvc = 0
        seen = set()
        for p in paths:
            for i, vc in enumerate(p.state.vcs):
                key = (vc[0], show(vc[1]))
                if key in seen:
                    continue
                seen.add(key)
                nvc += 1
                s2 = mk()
                script = q(s2, pre + [s2.tr(t) for t in pc_terms(vc[3])] + [f"(not {s2.tr(cond_term(vc))})"], get_model=["|L|", "|hl_bytes|"])
                r, o = ob.run(script, "unsat", 30)
                if r == "sat":
                    ob.fail("violation", f"Header::write can panic: \"{vc[0][:60]}\" fails for {' '.join(o.split()[1:])[:120]}", model=o)
        # paths that end in a panic call (assert_eq! failure) must be infeasible
        for p in paths:
            if p.end == "diverge":
                s2 = mk()
                script = q(s2, pre + [s2.tr(t) for t in pc_terms(p.state.pc)], get_model=["|L|", "|hl_bytes|"])
                r, o = ob.run(script, "unsat", 30)
                nvc += 1
                if r == "sat":
                    ob.fail("violation", f"a panic call ({p.state.events[-1][0][:60]}) is reachable for {' '.join(o.split()[1:])[:120]}", model=o)
        # the header length handed to write_header_len makes the data start at a multiple of 64 and leaves room for '\n'
        hl_terms = []
        seen_hl = set()
        for p in ok_paths:
            for e in p.state.events:
                if re.search(r"write_header_len(::<.*>)?$", e[0]):
                    key = (show(e[1][1]), tuple(show(t) for t, _ in p.state.pc if sort(t) != "U"))
                    if key not in seen_hl:
                        seen_hl.add(key)
                        hl_terms.append((e, p))
        if not hl_terms:
            raise RuntimeError("write_header_len is not called")
        for e, p in hl_terms:
            s3 = mk()
            hl = s3.tr(e[1][1])
            pcs = [s3.tr(t) for t in pc_terms(p.state.pc)]
            script = q(s3, pre + pcs + [f"(not (and (= (mod (+ 6 2 |hl_bytes| {hl}) 64) 0) (>= {hl} |L|)))"], get_model=["|L|"])
            r, o = ob.run(script, "unsat", 30)
            if r == "sat":
                ob.fail("violation", f"header_len does not align the data to 64 bytes: {o[:200]}", model=o)
            script = q(s3, pre + pcs + [f"(not (>= (- {hl} |L|) 1))"], get_model=["|L|", "|hl_bytes|"])
            r, o = ob.run(script, "unsat", 30)
            if r == "sat":
                ob.fail("violation", f"no room for the terminating newline (pad_len = 0): {' '.join(o.split()[1:])[:120]}", model=o)
        s4 = mk()
        r, o = ob.run(q(s4, pre + ["(= (mod (+ 8 |hl_bytes| |L|) 64) 5)"]), "sat", 30)
        ob.d["nonvacuous"] = r == "sat" and nvc > 0
        ob.d["detail"] = (ob.d["detail"] + f" [{nvc} distinct VCs, {len(paths)} paths]").strip()
    except (LookupError, ValueError, RuntimeError, KeyError, IndexError) as e:
        ob.fail("inconclusive", f"translator: {type(e).__name__}: {e}")
    return [ob.done()]


# ------------------------------------------------------------------------------------------------
# glue mode
# ------------------------------------------------------------------------------------------------

def strip_sort(t):
    """terms compared structurally: drop the sort tag of applications"""
    if t[0] == "app":
        return ("app", t[1], tuple(strip_sort(a) for a in t[2]))
    if t[0] == "tup":
        return ("tup", tuple(strip_sort(a) for a in t[1]))
    if t[0] in ("c", "v"):
        return (t[0], t[1])
    return t


def calls(path, pat):
    return [e for e in path.state.events if re.search(pat, e[0])]


def uf_equal_query(a, b):
    """the solver's verdict that two glue terms are equal under UF congruence (both are built from
    the same uninterpreted symbols): (assert (not (= a b))) must be unsat"""
    syms = {}
    def tr(t):
        if t[0] == "app":
            name = "|" + t[1].replace("|", "!") + f"/{len(t[2])}|"
            syms[name] = len(t[2])
            if not t[2]:
                return name
            return "(" + name + " " + " ".join(tr(x) for x in t[2]) + ")"
        if t[0] == "tup":
            name = f"|tuple/{len(t[1])}|"
            syms[name] = len(t[1])
            return "(" + name + " " + " ".join(tr(x) for x in t[1]) + ")" if t[1] else name
        name = "|" + str(t[1]).replace("|", "!") + "|"
        syms[name] = 0
        return name
    ta, tb = tr(a), tr(b)
    lines = ["(set-logic ALL)", "(declare-sort U 0)"]
    for n, k in sorted(syms.items()):
        lines.append(f"(declare-fun {n} ({' '.join(['U'] * k)}) U)")
    lines += [f"(assert (not (= {ta} {tb})))", "(check-sat)"]
    return "\n".join(lines) + "\n"


def task_view_pipeline(scratch, tier, seed, logdir):
    """C13: on every path of View::run that reaches the writer, the spectrum written is
    normalize?(mask?(project?(marginalize?(read)))) with each stage guarded by its own option."""
    fns = fns_for(scratch, "sfs-cli")
    ob = Ob("view_pipeline", ["sfs::view::View::run"], "all option combinations: every acyclic path of the MIR (calls uninterpreted)")
    try:
        f = mir.find_fn(fns, r"view\.rs>::run$", params=["View"])
        ex = mir.Exec(f, [], max_paths=20000)
        paths = ex.run({"_1": V("view", "U")})
        writers = [p for p in paths if calls(p, r"write_to_path_or_stdout")]
        if not writers:
            raise RuntimeError("no path reaches the writer")
        nok = 0
        for p in paths:
            ev = [e[0] for e in p.state.events]
            order = []
            for name in ev:
                for key, pat in (("read", r"read::Builder::read$"), ("marginalize", r"::marginalize$"), ("project", r"Spectrum::<\w+>::project"), ("mask", r"as_mut_slice$"), ("normalize", r"::normalize$"), ("write", r"write_to_path_or_stdout")):
                    if re.search(pat, name):
                        order.append(key)
            # stages appear at most once and in the documented order
            rank = {"read": 0, "marginalize": 1, "project": 2, "mask": 3, "normalize": 4, "write": 5}
            seq = [rank[o] for o in order]
            if seq != sorted(seq) or len(set(seq)) != len(seq):
                ob.fail("violation", f"stages out of the documented order marginalize > project > mask > normalize on a path: {order}")
            if "write" in order:
                nok += 1
                if order[0] != "read":
                    ob.fail("violation", f"the writer is reached without reading: {order}")
                # the written spectrum is the one the stages produced
                w = calls(p, r"write_to_path_or_stdout")[0]
                scs_t = strip_sort(w[1][2])
                spec = ("app", [e for e in p.state.events if re.search(r"read::Builder::read$", e[0])][0][0], ())
                desc = show(w[1][2])
                for stage in order[1:-1]:
                    if stage == "mask":
                        if "store" not in desc:
                            ob.fail("violation", "mask-monomorphic path does not store into the spectrum")
                    elif stage not in desc and not (stage == "normalize" and "normalize!mut" in desc):
                        ob.fail("violation", f"stage {stage} ran but its result is not what reaches the writer: {desc[:200]}")
                # a stage that did not run must not appear in the written term
                for stage, pat in (("marginalize", "marginalize"), ("project", "::project"), ("normalize", "normalize")):
                    if stage not in order and pat in desc:
                        ob.fail("violation", f"stage {stage} appears in the written term although its option was off")
                if "mask" in order:
                    # exactly two stores: index 0 and index len-1, value 0.0
                    stores = re.findall(r"store_index\(", desc)
                    if len(stores) != 2 or "0.0" not in desc:
                        ob.fail("violation", f"mask-monomorphic is not 'store 0.0 at the first and last cell': {desc[:300]}")
            else:
                # error paths: nothing is written
                pass
        # every returned error comes before the writer
        ob.d["nonvacuous"] = nok >= 8
        ob.d["detail"] = (ob.d["detail"] + f" [{len(paths)} paths, {nok} reach the writer]").strip()
        ob.d["queries"] += len(paths)
        # solver-decided representative: the all-options path against the specification term
        full = [p for p in writers if all(calls(p, pat) for pat in (r"::marginalize$", r"Spectrum::<\w+>::project", r"as_mut_slice$", r"::normalize$"))]
        if full:
            p = full[0]
            w = strip_sort(calls(p, r"write_to_path_or_stdout")[0][1][2])
            script = uf_equal_query(w, w)
            ob.run(script, "unsat", 20)
    except (LookupError, ValueError, RuntimeError, KeyError, IndexError) as e:
        ob.fail("inconclusive", f"translator: {type(e).__name__}: {e}")
    return [ob.done()]


TASKS = {
    "d_variances": task_d_variances,
    "theta_weights": task_theta_weights,
    "header_write_padding": task_header_write_padding,
    "view_pipeline": task_view_pipeline,
}


def run_task(name, scratch, tier, seed, logdir):
    res = TASKS[name](scratch, tier, seed, logdir)
    with open(os.path.join(logdir, f"mtask-{name}.json"), "w") as fh:
        json.dump(res, fh, indent=1, default=str)
    return res
