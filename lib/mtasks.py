"""mir2smt, part 2: the verification tasks (numeric identities / overflow VCs, glue path terms).

Each task returns a list of obligations
  dict(name, status in {'holds','violation','inconclusive'}, detail, functions, bounds, queries, time_s,
       solver_time_s, nonvacuous, sample_query, model)
"""
import os, re, time, json
import mir
from mir import C, V, APP, sort, show

_CACHE = {}


def fns_for(scratch, crate):
    key = (scratch.dir, crate)
    if key not in _CACHE:
        out = os.path.join(scratch.dir, f"{crate}.mir")
        kind = "--lib" if crate == "sfs-core" else "--bin sfs"
        mir.dump(scratch.src, crate, kind, os.path.join(scratch.dir, "target-mir"), out)
        _CACHE[key] = mir.parse_file(out)
    return _CACHE[key]


# ------------------------------------------------------------------------------------------------
# helpers
# ------------------------------------------------------------------------------------------------

R = lambda x: C(x, "real")
I = lambda x: C(x, "int")


def q(smt, asserts, get_model=None):
    lines = smt.header() + [f"(assert {a})" for a in asserts] + ["(check-sat)"]
    if get_model:
        lines.append("(get-value (" + " ".join(get_model) + "))")
    return "\n".join(lines) + "\n"


class Ob:
    def __init__(self, name, functions, bounds):
        self.d = dict(name=name, status="holds", detail="", functions=functions, bounds=bounds, queries=0, time_s=0.0,
                      solver_time_s=0.0, nonvacuous=False, sample_query="", model=None)
        self.t0 = time.time()

    def run(self, script, expect, timeout=60, cross=False):
        """expect 'unsat' (property) or 'sat' (vacuity twin).  Returns solver verdict."""
        r, out, dt = mir.solve(script, timeout)
        self.d["queries"] += 1
        self.d["solver_time_s"] = round(self.d["solver_time_s"] + dt, 3)
        if r == "unknown":
            # second opinion: cvc5 decides some non-linear integer queries z3 gives up on
            r2, out2, dt2 = mir.solve(script, timeout, solver="cvc5")
            self.d["queries"] += 1
            self.d["solver_time_s"] = round(self.d["solver_time_s"] + dt2, 3)
            if r2 in ("sat", "unsat"):
                r, out = r2, out2
        if not self.d["sample_query"] and expect == "unsat":
            self.d["sample_query"] = script
        if r == "error":
            self.fail("inconclusive", "solver error: " + out[:300])
        elif r == "unknown":
            self.fail("inconclusive", "solver gave no verdict within the time limit: " + out[:200])
        elif cross and r == expect:
            r2, out2, dt2 = mir.solve(script, timeout, solver="cvc5")
            self.d["queries"] += 1
            self.d["solver_time_s"] = round(self.d["solver_time_s"] + dt2, 3)
            if r2 in ("sat", "unsat") and r2 != r:
                self.fail("inconclusive", f"z3 says {r}, cvc5 says {r2}")
        return r, out

    def fail(self, status, detail, model=None):
        order = {"holds": 0, "inconclusive": 1, "violation": 2}
        if order[status] >= order[self.d["status"]]:
            self.d["status"] = status
            self.d["detail"] = (self.d["detail"] + " | " if self.d["detail"] and self.d["status"] == status else "") + detail
        if model:
            self.d["model"] = model

    def done(self):
        self.d["time_s"] = round(time.time() - self.t0, 2)
        return self.d


def cond_term(vc):
    msg, ct, expected, pc = vc
    return ct if expected else APP("Not", [ct], "bool")


def pc_terms(pc):
    out = []
    for t, cons in pc:
        if sort(t) == "U":
            continue
        def val(v):
            if sort(t) == "bool":
                return C("true" if v in ("1", "true") else "false", "bool")
            return C(v, "int")
        if cons[0] == "eq":
            out.append(APP("Eq", [t, val(cons[1])], "bool"))
        else:
            for v in cons[1]:
                out.append(APP("Ne", [t, val(v)], "bool"))
    return out


def check_vcs(ob, path, pre_smt, smt_factory, label="", timeout=30, expect_fail=None):
    """every MIR assert on the path must hold under the precondition"""
    for i, vc in enumerate(path.state.vcs):
        smt = smt_factory()
        pre = [smt.tr(t) for t in pc_terms(vc[3])] + [smt.tr(s) for s in path.state.side]
        neg = f"(not {smt.tr(cond_term(vc))})"
        script = q(smt, pre_smt(smt) + pre + [neg], get_model=sorted(n for n in smt.decls if smt.decls[n] != "U")[:8] or None)
        r, out = ob.run(script, "unsat", timeout)
        if r == "sat":
            ob.fail("violation", f"{label}MIR assert #{i} can fail: \"{vc[0][:70]}\"; model: " + " ".join(out.split("\n")[1:])[:300], model=out)


# common callee models ---------------------------------------------------------------------------

def m_var(name, s):
    return lambda ex, st, f, args, ds: V(name, s)


def m_powi(ex, st, f, args, ds):
    if args[1] == I("2"):
        return APP("Mul", [args[0], args[0]], "real")
    return None


def m_sqrt(ex, st, f, args, ds):
    ex.fresh += 1
    v = V(f"sqrt{ex.fresh}", "real")
    st.side.append(APP("Ge", [v, R("0.0")], "bool"))
    st.side.append(APP("Eq", [APP("Mul", [v, v], "real"), args[0]], "bool"))
    return v


def m_pow2(ex, st, f, args, ds):
    if args[1] == I("2"):
        return APP("Mul", [args[0], args[0]], "int")
    return None


def m_binomial2(ex, st, f, args, ds):
    # documented contract of utils::binomial(n, 2) for n >= 2: n (n-1) / 2  (its floating-point
    # evaluation through ln/exp is numerics, outside this engine)
    if args[1] == I("2"):
        n = APP("to_real", [args[0]], "real")
        return APP("Div", [APP("Mul", [n, APP("Sub", [n, R("1.0")], "real")], "real"), R("2.0")], "real")
    return None


STAT_MODELS = [
    (r"Spectrum::<\w+>::elements$", m_var("elements", "int")),
    (r"segregating_sites$", m_var("S", "real")),
    (r"f64>::powi$", m_powi),
    (r"f64>::sqrt$", m_sqrt),
    (r"usize>::pow$", m_pow2),
    (r"^(utils::)?binomial$", m_binomial2),
]

SPEC_PRELUDE = """
(define-fun n () Real (to_real (- |elements| 1)))
(define-fun a1 () Real (|harmonic| (- |elements| 1)))
(define-fun a2 () Real (|p_harmonic| (- |elements| 1) 2))
"""


def spec_script(smt, spec_defs, asserts):
    lines = smt.header() + [SPEC_PRELUDE, spec_defs] + [f"(assert {a})" for a in asserts] + ["(check-sat)"]
    return "\n".join(lines) + "\n"


def need(smt):
    smt.decls["|elements|"] = "Int"
    smt.decls["|S|"] = "Real"
    smt.funs["|harmonic|"] = ("Int", "Real")
    smt.funs["|p_harmonic|"] = ("Int Int", "Real")


# ------------------------------------------------------------------------------------------------
# C06: D-statistic variances and theta weights (all n, real arithmetic)
# ------------------------------------------------------------------------------------------------

def task_d_variances(scratch, tier, seed, logdir):
    fns = fns_for(scratch, "sfs-core")
    out = []
    specs = {
        "fu_li": (["4_usize"], """
(define-fun cn () Real (/ (* 2.0 (- (* n a1) (* 2.0 (- n 1.0)))) (* (- n 1.0) (- n 2.0))))
(define-fun vD () Real (+ 1.0 (* (/ (* a1 a1) (+ a2 (* a1 a1))) (- cn (/ (+ n 1.0) (- n 1.0))))))
(define-fun uD () Real (- (- a1 1.0) vD))
(define-fun var () Real (+ (* uD |S|) (* vD (* |S| |S|))))
(define-fun scale () Real a1)
""", "Fu & Li (1993): sqrt(u_D S + v_D S^2) / a_n (theta form)"),
        "tajima": (["9_usize"], """
(define-fun b1 () Real (/ (+ n 1.0) (* 3.0 (- n 1.0))))
(define-fun b2 () Real (/ (* 2.0 (+ (+ (* n n) n) 3.0)) (* (* 9.0 n) (- n 1.0))))
(define-fun c1 () Real (- b1 (/ 1.0 a1)))
(define-fun c2 () Real (+ (- b2 (/ (+ n 2.0) (* a1 n))) (/ a2 (* a1 a1))))
(define-fun e1 () Real (/ c1 a1))
(define-fun e2 () Real (/ c2 (+ (* a1 a1) a2)))
(define-fun var () Real (+ (* e1 |S|) (* (* e2 |S|) (- |S| 1.0))))
(define-fun scale () Real 1.0)
""", "Tajima (1989): sqrt(e1 S + e2 S (S-1))"),
    }
    for name, (contains, spec, ref) in specs.items():
        ob = Ob(f"d_{name}_variance_identity", [f"stat::d::<impl {name}>::variance"], "all n >= 3 (elements >= 4, <= 2^30), all S >= 0; REAL arithmetic (rounding / inf / NaN outside the claim)")
        try:
            f = mir.find_fn(fns, r"stat/d\.rs>::variance$", contains=contains)
            ex = mir.Exec(f, STAT_MODELS)
            paths = [p for p in ex.run({"_1": ("ref", "$scs"), "$scs": V("scs", "U")}) if p.end == "return"]
            if len(paths) != 1:
                raise RuntimeError(f"expected a single straight-line path, found {len(paths)}")
            p = paths[0]
            def mk():
                s = mir.Smt()
                need(s)
                return s
            pre = lambda s: ["(>= |elements| 4)", "(<= |elements| 1073741824)", "(> a1 0.0)", "(> a2 0.0)", "(>= |S| 0.0)"]
            # (1) overflow / arithmetic VCs
            smt = mk()
            ret = smt.tr(p.ret)
            sides = [smt.tr(s) for s in p.state.side]
            for i, vc in enumerate(p.state.vcs):
                s2 = mk()
                script = spec_script(s2, "", pre(s2) + [s2.tr(t) for t in pc_terms(vc[3])] + [f"(not {s2.tr(cond_term(vc))})"])
                r, o = ob.run(script, "unsat", 30)
                if r == "sat":
                    ob.fail("violation", f"MIR assert #{i} \"{vc[0][:60]}\" can fail for n >= 3: {o[:200]}", model=o)
            # (2) identity with the published estimator
            script = spec_script(smt, spec + "(declare-const ref Real)\n", pre(smt) + sides + ["(>= ref 0.0)", "(= (* ref ref) var)", f"(not (= {ret} (/ ref scale)))"])
            r, o = ob.run(script, "unsat", 120, cross=False)
            if r == "sat":
                ob.fail("violation", f"the value computed by variance() differs from {ref}: {o[:300]}", model=o)
            # (3) vacuity twin: preconditions and a non-negative variance are satisfiable
            s3 = mk()
            s3.tr(p.ret)
            script = spec_script(s3, spec + "(declare-const ref Real)\n", pre(s3) + [s3.tr(s) for s in p.state.side] + ["(>= ref 0.0)", "(= (* ref ref) var)", "(> |S| 1.0)"])
            r, o = ob.run(script, "sat", 60)
            if r == "sat":
                ob.d["nonvacuous"] = True
            elif r == "unsat":
                ob.fail("inconclusive", "vacuity: the preconditions of the identity are unsatisfiable")
        except (LookupError, ValueError, RuntimeError, KeyError) as e:
            ob.fail("inconclusive", f"translator: {type(e).__name__}: {e}")
        out.append(ob.done())
    return out


def task_theta_weights(scratch, tier, seed, logdir):
    fns = fns_for(scratch, "sfs-core")
    out = []
    specs = {
        "tajima": (["binomial"], "(/ (* (to_real |i|) (- (to_real |n|) (to_real |i|))) (/ (* (to_real |n|) (- (to_real |n|) 1.0)) 2.0))", "i (n-i) / C(n,2)", ["(>= |n| 2)", "(<= |n| 4294967296)", "(>= |i| 1)", "(< |i| |n|)"]),
        "watterson": (["harmonic"], "(/ 1.0 (|harmonic| |n|))", "1 / a_n", ["(>= |n| 2)", "(>= |i| 1)", "(< |i| |n|)"]),
    }
    for name, (contains, spec, ref, pre) in specs.items():
        ob = Ob(f"theta_{name}_weight_identity", [f"stat::theta::<impl {name}>::weight"], "all 1 <= i < n <= 2^32; real arithmetic; binomial(n,2) by its contract n(n-1)/2")
        try:
            cands = [f for f in fns if re.search(r"stat/theta\.rs>::weight$", mir.norm_name(f.name)) and all(c in f.text for c in contains) and "unimplemented" not in f.text and "pow" not in f.text]
            if len(cands) != 1:
                raise LookupError(f"weight function for {name}: {len(cands)} candidates")
            f = cands[0]
            ex = mir.Exec(f, STAT_MODELS)
            paths = [p for p in ex.run({"_1": V("i", "int"), "_2": V("n", "int")}) if p.end == "return"]
            if len(paths) != 1:
                raise RuntimeError(f"{len(paths)} paths")
            p = paths[0]
            def mk():
                s = mir.Smt()
                s.decls["|i|"] = "Int"
                s.decls["|n|"] = "Int"
                s.funs["|harmonic|"] = ("Int", "Real")
                return s
            for i, vc in enumerate(p.state.vcs):
                s2 = mk()
                script = q(s2, pre + [f"(not {s2.tr(cond_term(vc))})"])
                r, o = ob.run(script, "unsat", 30)
                if r == "sat":
                    ob.fail("violation", f"MIR assert #{i} \"{vc[0][:60]}\" can fail: {o[:200]}", model=o)
            smt = mk()
            ret = smt.tr(p.ret)
            r, o = ob.run(q(smt, pre + [f"(not (= {ret} {spec}))"]), "unsat", 60)
            if r == "sat":
                ob.fail("violation", f"weight(i, n) differs from {ref}: {o[:300]}", model=o)
            r, o = ob.run(q(smt, pre + [f"(= {ret} {spec})"]), "sat", 60)
            if r == "sat":
                ob.d["nonvacuous"] = True
        except (LookupError, ValueError, RuntimeError, KeyError) as e:
            ob.fail("inconclusive", f"translator: {type(e).__name__}: {e}")
        out.append(ob.done())
    return out


# ------------------------------------------------------------------------------------------------
# C15 / C17: npy Header::write padding arithmetic for every dict length
# ------------------------------------------------------------------------------------------------

def task_header_write_padding(scratch, tier, seed, logdir):
    fns = fns_for(scratch, "sfs-core")
    ob = Ob("header_write_padding", ["array::npy::header::Header::write", "Version::header_len_bytes_len"], "every dict text length L in 0..65000, versions 1/2/3; integer arithmetic exact")
    try:
        f = mir.find_fn(fns, r"npy/header\.rs>::write$", params=["Header"])
        L = V("L", "int")
        HL = V("hl_bytes", "int")

        def m_to_string(ex, st, fn, args, ds):
            return APP("dict_text", [], "U")

        def m_len(ex, st, fn, args, ds):
            return L

        def m_hlb(ex, st, fn, args, ds):
            return HL

        def m_ok(ex, st, fn, args, ds):
            return APP("ctor:Continue", [C("()", "U")])

        events = []

        def m_from_elem(ex, st, fn, args, ds):
            # vec![b' '; pad_len]
            return APP("vec_of_len", [args[1]], "U")

        def m_index_mut(ex, st, fn, args, ds):
            # IndexMut on the pad vector: in bounds iff index < length
            vec, idx = args[0], args[1]
            ln = vec[2][0] if vec[0] == "app" and vec[1] == "vec_of_len" else APP("len", [vec], "int")
            st.vcs.append(("index out of bounds on the padding vector", APP("Lt", [idx, ln], "bool"), True, list(st.pc)))
            return None

        models = [(r"to_string$", m_to_string), (r"String::len$|str::len$", m_len), (r"header_len_bytes_len$", m_hlb),
                  (r"as Try>::branch$", None), (r"IndexMut<usize>>::index_mut$", m_index_mut)]
        models = [(p, h) for p, h in models if h]
        ex = mir.Exec(f, models, max_paths=400)
        paths = ex.run({"_1": ("ref", "$self"), "$self": V("hdr", "U"), "_2": ("ref", "$w"), "$w": V("w", "U")})
        ok_paths = [p for p in paths if p.end == "return"]
        if not ok_paths:
            raise RuntimeError("no returning path")

        def mk():
            s = mir.Smt()
            s.decls["|L|"] = "Int"
            s.decls["|hl_bytes|"] = "Int"
            return s
        pre = ["(>= |L| 0)", "(<= |L| 65000)", "(or (= |hl_bytes| 2) (= |hl_bytes| 4))"]
        nvc = 0
        seen = set()
        for p in paths:
            for i, vc in enumerate(p.state.vcs):
                key = (vc[0], show(vc[1]))
                if key in seen:
                    continue
                seen.add(key)
                nvc += 1
                s2 = mk()
                script = q(s2, pre + [s2.tr(t) for t in pc_terms(vc[3])] + [f"(not {s2.tr(cond_term(vc))})"], get_model=["|L|", "|hl_bytes|"])
                r, o = ob.run(script, "unsat", 30)
                if r == "sat":
                    ob.fail("violation", f"Header::write can panic: \"{vc[0][:60]}\" fails for {' '.join(o.split()[1:])[:120]}", model=o)
        # paths that end in a panic call (assert_eq! failure) must be infeasible
        for p in paths:
            if p.end == "diverge":
                s2 = mk()
                script = q(s2, pre + [s2.tr(t) for t in pc_terms(p.state.pc)], get_model=["|L|", "|hl_bytes|"])
                r, o = ob.run(script, "unsat", 30)
                nvc += 1
                if r == "sat":
                    ob.fail("violation", f"a panic call ({p.state.events[-1][0][:60]}) is reachable for {' '.join(o.split()[1:])[:120]}", model=o)
        # the header length handed to write_header_len makes the data start at a multiple of 64 and leaves room for '\n'
        hl_terms = []
        seen_hl = set()
        for p in ok_paths:
            for e in p.state.events:
                if re.search(r"write_header_len(::<.*>)?$", e[0]):
                    key = (show(e[1][1]), tuple(show(t) for t, _ in p.state.pc if sort(t) != "U"))
                    if key not in seen_hl:
                        seen_hl.add(key)
                        hl_terms.append((e, p))
        if not hl_terms:
            raise RuntimeError("write_header_len is not called")
        for e, p in hl_terms:
            s3 = mk()
            hl = s3.tr(e[1][1])
            pcs = [s3.tr(t) for t in pc_terms(p.state.pc)]
            script = q(s3, pre + pcs + [f"(not (and (= (mod (+ 6 2 |hl_bytes| {hl}) 64) 0) (>= {hl} |L|)))"], get_model=["|L|"])
            r, o = ob.run(script, "unsat", 30)
            if r == "sat":
                ob.fail("violation", f"header_len does not align the data to 64 bytes: {o[:200]}", model=o)
            script = q(s3, pre + pcs + [f"(not (>= (- {hl} |L|) 1))"], get_model=["|L|", "|hl_bytes|"])
            r, o = ob.run(script, "unsat", 30)
            if r == "sat":
                ob.fail("violation", f"no room for the terminating newline (pad_len = 0): {' '.join(o.split()[1:])[:120]}", model=o)
        # what is written on a successful path: magic, version, length field, dict text, then the
        # padding (spaces) terminated by a newline
        for p in ok_paths:
            if "from_residual" in show(p.ret):
                continue
            seq = [e for e in p.state.events if re.search(r"Write>::write_all$|write_header_len(::<.*>)?$", e[0])]
            kinds = ["hl" if "write_header_len" in e[0] else "w" for e in seq]
            if kinds != ["w", "w", "hl", "w", "w"]:
                ob.fail("violation", f"a successful Header::write does not write magic, version, length, dict, padding+newline (sequence {kinds}): the header is not newline-terminated / not aligned on that path")
                continue
            a = [show(e[1][1]) for e in seq]
            if "promoted" not in a[0] or "to_header_bytes" not in a[1] or not ("to_string" in a[3] or "dict_text" in a[3]):
                ob.fail("violation", "Header::write does not write magic, version bytes and the dict text in this order")
            last = a[4]
            nl_push = "push!mut0(std::vec::from_elem::<u8>(32," in last and any(e[0].endswith("Vec::<u8>::push") and show(e[1][1]) == "10" for e in p.state.events)
            nl_store = "from_elem::<u8>(32," in last and re.search(r"store[^;]*, 10\)", last) is not None
            if not (nl_push or nl_store):
                ob.fail("inconclusive", "the form of the padding write is not recognised (expected: spaces then a newline byte): " + last[:160])
        s4 = mk()
        r, o = ob.run(q(s4, pre + ["(= (mod (+ 8 |hl_bytes| |L|) 64) 5)"]), "sat", 30)
        ob.d["nonvacuous"] = r == "sat" and nvc > 0
        ob.d["detail"] = (ob.d["detail"] + f" [{nvc} distinct VCs, {len(paths)} paths]").strip()
    except (LookupError, ValueError, RuntimeError, KeyError, IndexError) as e:
        ob.fail("inconclusive", f"translator: {type(e).__name__}: {e}")
    if ob.d["status"] == "violation":
        # native confirmation: write every dict length modulo 64 (shapes [1; k] + one wider entry) in
        # all three versions and validate the NPY layout of what comes out
        ob.d["native_test"] = dict(crate="sfs-core", file="core/src/array/npy/header.rs", name="kv_header_write_all_residues", code=HEADER_NATIVE_TEST)
    return [ob.done()]


HEADER_NATIVE_TEST = r"""
    #[test]
    fn kv_header_write_all_residues() {
        let mut seen = [false; 64];
        for k in 1..70usize {
            for wide in [1usize, 10, 100] {
                let mut shape = vec![1usize; k];
                shape[0] = wide;
                for version in [Version::V1, Version::V2, Version::V3] {
                    let dict = HeaderDict::new(TypeDescriptor::new(Endian::Little, Type::F8), false, shape.clone());
                    let text = dict.to_string();
                    let text_len = text.len();
                    let hl_bytes = version.header_len_bytes_len();
                    seen[(8 + hl_bytes + text_len) % 64] = true;
                    let mut out = Vec::new();
                    Header::new(version, dict).write(&mut out).unwrap();
                    assert_eq!(out.len() % 64, 0, "data must start at a multiple of 64 (dict length {text_len})");
                    assert_eq!(*out.last().unwrap(), b'\n', "header must end in a newline (dict length {text_len})");
                    assert_eq!(&out[..6], b"\x93NUMPY", "magic string");
                    assert_eq!((out[6], out[7]), match hl_bytes { 2 => (1, 0), _ => (out[6], 0) }, "version bytes");
                    assert!(out[6] >= 1 && out[6] <= 3, "major version");
                    let start = 8 + hl_bytes;
                    assert_eq!(&out[start..start + text_len], text.as_bytes(), "the dict text must be written unaltered (dict length {text_len})");
                    assert!(out[start + text_len..out.len() - 1].iter().all(|&b| b == b' '), "only spaces may follow the dict before the newline (dict length {text_len})");
                    assert!(out.len() > start + text_len, "the newline must not replace a byte of the dict (dict length {text_len})");
                    let declared = if hl_bytes == 2 { u16::from_le_bytes([out[8], out[9]]) as usize } else { u32::from_le_bytes([out[8], out[9], out[10], out[11]]) as usize };
                    assert_eq!(8 + hl_bytes + declared, out.len(), "header length field (dict length {text_len})");
                }
            }
        }
        assert!(seen.iter().all(|&s| s), "every residue of the unpadded header length modulo 64 was exercised");
    }
"""


# ------------------------------------------------------------------------------------------------
# glue mode
# ------------------------------------------------------------------------------------------------

def strip_sort(t):
    """terms compared structurally: drop the sort tag of applications"""
    if t[0] == "app":
        return ("app", t[1], tuple(strip_sort(a) for a in t[2]))
    if t[0] == "tup":
        return ("tup", tuple(strip_sort(a) for a in t[1]))
    if t[0] in ("c", "v"):
        return (t[0], t[1])
    return t


def simp_refs(t, drop_mut=False):
    """reborrows are identities: refto(deref(x)) -> x, deref(refto(x)) -> x; with drop_mut also
    f!mutN(a, ..) -> a (the place a callee may have written, seen as the place itself)"""
    if t[0] == "app":
        args = tuple(simp_refs(a, drop_mut) for a in t[2])
        if t[1] == "refto" and args and args[0][0] == "app" and args[0][1] == "deref":
            return args[0][2][0]
        if t[1] == "deref" and args and args[0][0] == "app" and args[0][1] == "refto":
            return args[0][2][0]
        if drop_mut and re.search(r"!mut\d+$", t[1]) and args:
            k = int(re.search(r"!mut(\d+)$", t[1]).group(1))
            a = args[k] if k < len(args) else args[0]
            return a[2][0] if a[0] == "app" and a[1] == "refto" else ("app", "deref", (a,), "U")
        return ("app", t[1], args) + tuple(t[3:])
    if t[0] == "tup":
        return ("tup", tuple(simp_refs(a, drop_mut) for a in t[1]))
    return t


def calls(path, pat):
    return [e for e in path.state.events if re.search(pat, e[0])]


def uf_equal_query(a, b):
    """the solver's verdict that two glue terms are equal under UF congruence (both are built from
    the same uninterpreted symbols): (assert (not (= a b))) must be unsat"""
    syms = {}
    def tr(t):
        if t[0] == "app":
            name = "|" + t[1].replace("|", "!") + f"/{len(t[2])}|"
            syms[name] = len(t[2])
            if not t[2]:
                return name
            return "(" + name + " " + " ".join(tr(x) for x in t[2]) + ")"
        if t[0] == "tup":
            name = f"|tuple/{len(t[1])}|"
            syms[name] = len(t[1])
            return "(" + name + " " + " ".join(tr(x) for x in t[1]) + ")" if t[1] else name
        name = "|" + str(t[1]).replace("|", "!") + "|"
        syms[name] = 0
        return name
    ta, tb = tr(a), tr(b)
    lines = ["(set-logic ALL)", "(declare-sort U 0)"]
    for n, k in sorted(syms.items()):
        lines.append(f"(declare-fun {n} ({' '.join(['U'] * k)}) U)")
    lines += [f"(assert (not (= {ta} {tb})))", "(check-sat)"]
    return "\n".join(lines) + "\n"


def unq(t):
    """strip the `?` operator: field(as_Continue(<.. as Try>::branch(X)), 0) -> X"""
    if t[0] == "app":
        args = tuple(unq(a) for a in t[2])
        if t[1] == "field" and args[1] == ("c", "0", "int") and args[0][0] == "app" and args[0][1] == "as_Continue":
            inner = args[0][2][0]
            if inner[0] == "app" and re.search(r"as Try>::branch$", inner[1]):
                return inner[2][0]
        return ("app", t[1], args, t[3])
    if t[0] == "tup":
        return ("tup", tuple(unq(a) for a in t[1]))
    return t


def struct_fields(src_path, struct):
    txt = open(src_path).read()
    m = re.search(r"pub struct " + struct + r" \{(.*?)\n\}", txt, re.S)
    names = re.findall(r"^\s*(?:pub )?([a-z_]+):", m.group(1), re.M)
    return {n: i for i, n in enumerate(names)}


def enum_variants(src_path, enum):
    txt = open(src_path).read()
    m = re.search(r"pub enum " + enum + r" \{(.*?)\n\}", txt, re.S)
    return re.findall(r"^\s*([A-Z][A-Za-z0-9]*),", m.group(1), re.M)


def flag_of(path, field_idx):
    """value of an option discriminant / bool flag `field(view, idx)` on this path: True/False/None"""
    for t, cons in path.state.pc:
        s = show(t)
        if s in (f"discriminant(field(view, {field_idx}))", f"field(view, {field_idx})"):
            if cons[0] == "eq":
                return cons[1] not in ("0", "false")
            return True   # notin (0)
    return None


def stage_chain(t):
    """outer-to-inner list of pipeline stages of a (normalised) spectrum term"""
    out = []
    while True:
        if t[0] != "app":
            out.append(("?", show(t)[:60]))
            return out
        name, args = t[1], t[2]
        if re.search(r"::normalize!mut0$", name):
            out.append(("normalize", None))
            t = args[0]
        elif name == "store":
            # mask: nested stores down to inner_mut!mut0(X)
            base = t
            leaves = []
            while base[0] == "app" and base[1] == "store":
                leaves.append(base[2][2])
                base = base[2][0]
            if base[0] == "app" and re.search(r"::inner_mut!mut0$", base[1]):
                out.append(("mask", show(t)))
                t = base[2][0]
            else:
                out.append(("?", "store into " + show(base)[:60]))
                return out
        elif re.search(r"Spectrum::<\w+>::project(::<.*>)?$", name):
            out.append(("project", args[1]))
            t = args[0]
        elif re.search(r"Spectrum::<\w+>::marginalize$", name):
            out.append(("marginalize", args[1]))
            t = args[0]
        elif re.search(r"read::Builder::read$", name):
            out.append(("read", args[0]))
            return out
        else:
            out.append(("?", name[:80]))
            return out


VIEW_NATIVE_TEST = r"""
// generated by /verif (mir2smt replay for C13): `sfs view` with several options equals the chain of
// single-option invocations in the documented order, masks exactly the first and last cell, and a
// normalized spectrum sums to one
use std::{path::PathBuf, process::Command};

fn sfs(args: &[String]) -> Vec<u8> {
    let out = Command::new(env!("CARGO_BIN_EXE_sfs")).args(args).env("SFS_ALLOW_STDIN", "1").stdin(std::process::Stdio::null()).output().expect("sfs runs");
    assert!(out.status.success(), "sfs {args:?} failed: {}", String::from_utf8_lossy(&out.stderr));
    out.stdout
}

fn values(text: &[u8]) -> Vec<f64> {
    let s = String::from_utf8(text.to_vec()).unwrap();
    s.lines().nth(1).unwrap_or("").split_whitespace().map(|x| x.parse().unwrap()).collect()
}

#[test]
fn kv_view_is_chain_of_steps() {
    let dir = std::env::temp_dir().join(format!("kv_view_{}", std::process::id()));
    std::fs::create_dir_all(&dir).unwrap();
    let file = |name: &str| -> PathBuf { dir.join(name) };
    // (shape, marginalize-remove, project-shape when marginalized, project-shape when not)
    let cases: Vec<(Vec<usize>, Option<&str>, Option<&str>, Option<&str>)> = vec![
        (vec![5], None, None, Some("3")),
        (vec![4], None, None, None),
        (vec![3, 5], Some("0"), Some("3"), Some("3,3")),
        (vec![3, 5], Some("1"), Some("2"), Some("2,4")),
        (vec![1, 3], None, None, Some("1,3")),
        (vec![1, 3], Some("0"), Some("2"), Some("1,2")),
        (vec![3, 1], Some("0"), None, Some("2,1")),
        (vec![3, 1, 5], Some("0"), Some("1,3"), Some("2,1,3")),
        (vec![2, 3, 2], Some("2,0"), Some("2"), Some("2,2,2")),
        (vec![1], None, None, None),
        (vec![1, 1], None, None, None),
    ];
    for (shape, marg, proj_m, proj_n) in cases {
        let n: usize = shape.iter().product();
        for scale in [1.0f64, 0.0] {
            // values: distinct dyadic fractions; with scale 0.0 the input is already normalized
            let raw: Vec<f64> = (0..n).map(|i| (i * i + 3 * i + 2) as f64 * 0.125).collect();
            let total: f64 = raw.iter().sum();
            let vals: Vec<f64> = if scale == 0.0 { raw.iter().map(|x| x / total).collect() } else { raw };
            let header = format!("#SHAPE=<{}>", shape.iter().map(|d| d.to_string()).collect::<Vec<_>>().join("/"));
            let body = vals.iter().map(|x| format!("{x:.17e}")).collect::<Vec<_>>().join(" ");
            let input = file("in.txt");
            std::fs::write(&input, format!("{header}\n{body}\n")).unwrap();
            for mask_bits in 0..16u32 {
                let proj = if mask_bits & 1 != 0 { proj_m } else { proj_n };
                let steps: Vec<Vec<String>> = [
                    (mask_bits & 1 != 0).then(|| marg.map(|m| vec!["--marginalize-remove".to_string(), m.to_string()])).flatten(),
                    (mask_bits & 2 != 0).then(|| proj.map(|p| vec!["--project-shape".to_string(), p.to_string()])).flatten(),
                    (mask_bits & 4 != 0).then(|| vec!["--mask-monomorphic".to_string()]),
                    (mask_bits & 8 != 0).then(|| vec!["--normalize".to_string()]),
                ]
                .into_iter()
                .flatten()
                .collect();
                if steps.is_empty() || (mask_bits & 1 != 0 && marg.is_none()) || (mask_bits & 2 != 0 && proj.is_none()) {
                    continue;
                }
                let mut combined: Vec<String> = vec!["view".into(), "--precision".into(), "15".into()];
                combined.extend(steps.iter().flatten().cloned());
                combined.push(input.display().to_string());
                let combined_out = values(&sfs(&combined));
                // the chain: npy between the steps (exact), text at the end
                let mut cur = input.clone();
                let mut chain_out = Vec::new();
                for (k, step) in steps.iter().enumerate() {
                    let last = k + 1 == steps.len();
                    let next = file(&format!("step{k}.npy"));
                    let mut a: Vec<String> = vec!["view".into(), "--precision".into(), "15".into()];
                    a.extend(step.iter().cloned());
                    if !last {
                        a.extend(["-O".to_string(), "npy".to_string(), "-o".to_string(), next.display().to_string()]);
                    }
                    a.push(cur.display().to_string());
                    let out = sfs(&a);
                    if last {
                        chain_out = values(&out);
                    }
                    cur = next;
                }
                assert_eq!(combined_out.len(), chain_out.len(), "shape {shape:?} options {steps:?}: lengths differ");
                for (i, (a, b)) in combined_out.iter().zip(&chain_out).enumerate() {
                    assert!((a.is_nan() && b.is_nan()) || a == b || (a - b).abs() <= 1e-12 * b.abs().max(1.0), "shape {shape:?}: view {steps:?} gives {a} in cell {i}, the chain of single steps gives {b}");
                }
                if mask_bits & 8 != 0 {
                    let sum: f64 = combined_out.iter().sum();
                    assert!((sum - 1.0).abs() < 1e-9 || combined_out.iter().all(|x| !x.is_finite() || *x == 0.0), "shape {shape:?}: view {steps:?} is normalized but sums to {sum}");
                }
                if mask_bits == 4 {
                    let m = combined_out.len();
                    for (i, (got, want)) in combined_out.iter().zip(&vals).enumerate() {
                        let expect = if i == 0 || i + 1 == m { 0.0 } else { *want };
                        assert!((got - expect).abs() <= 1e-12, "shape {shape:?}: --mask-monomorphic leaves {got} in cell {i}, expected {expect}");
                    }
                }
            }
        }
    }
    // option values that do not fit the spectrum read: a diagnosed error or a result, never a panic
    let input = file("in33.txt");
    std::fs::write(&input, "#SHAPE=<3/3>\n1 2 3 4 5 6 7 8 9\n").unwrap();
    for opts in [
        vec!["-M", "2"], vec!["-M", "0,7"], vec!["-M", "18446744073709551615"], vec!["-M", "1,1"], vec!["-m", "5"], vec!["-m", "0,0"],
        vec!["-m", "0,1"], vec!["--project-shape", "9,9"], vec!["--project-shape", "0,0"], vec!["--project-shape", "3"], vec!["-p", "2,2,2"],
        vec!["-M", "3", "--mask-monomorphic", "--normalize"],
    ] {
        let mut a: Vec<String> = vec!["view".into()];
        a.extend(opts.iter().map(|s| s.to_string()));
        a.push(input.display().to_string());
        let out = Command::new(env!("CARGO_BIN_EXE_sfs")).args(&a).env("SFS_ALLOW_STDIN", "1").stdin(std::process::Stdio::null()).output().expect("sfs runs");
        let stderr = String::from_utf8_lossy(&out.stderr);
        assert!(matches!(out.status.code(), Some(0) | Some(1)) && !stderr.contains("panicked at"), "sfs {a:?} ended with status {:?}: {stderr}", out.status.code());
    }
    let _ = std::fs::remove_dir_all(&dir);
}
"""


def task_view_pipeline(scratch, tier, seed, logdir):
    """C13: on every path of View::run that reaches the writer, the spectrum written is
    normalize?(mask?(project?(marginalize?(read)))) with each stage guarded by its own option."""
    fns = fns_for(scratch, "sfs-cli")
    ob = Ob("view_pipeline", ["sfs::view::View::run"], "every acyclic path of the MIR of View::run (all 2^4 option subsets x {-m,-M} x {-p,--project-shape} x error exits); calls uninterpreted")
    try:
        fld = struct_fields(os.path.join(scratch.src, "cli/src/view.rs"), "View")
        f = mir.find_fn(fns, r"view\.rs>::run$", params=["View"])
        ex = mir.Exec(f, [], max_paths=20000)
        paths = ex.run({"_1": V("view", "U")})
        nok = 0
        combos = set()
        for p in paths:
            w = calls(p, r"write_to_path_or_stdout")
            if p.end != "return":
                continue
            errs = [e for e in p.state.events if re.search(r"from_residual", e[0])]
            if not w:
                if not errs:
                    ob.fail("violation", "a path returns without writing and without an error")
                continue
            # a returned error before the writer never writes (the writer is the last stage)
            nok += 1
            want = {"marginalize": flag_of(p, fld["marginalize"]), "project": flag_of(p, fld["project"]),
                    "mask": flag_of(p, fld["mask_monomorphic"]), "normalize": flag_of(p, fld["normalize"])}
            if None in want.values():
                ob.fail("inconclusive", f"could not read the option flags of a path: {want}")
                continue
            chain = stage_chain(unq(w[0][1][2]))
            got = [c[0] for c in reversed(chain)]
            expect = ["read"] + [k for k in ("marginalize", "project", "mask", "normalize") if want[k]]
            combos.add(tuple(expect))
            if got != expect:
                if any(g == "?" for g in got):
                    # an operation this check does not know: it cannot tell a harmless refactoring from a bug
                    ob.fail("inconclusive", f"options {want}: unrecognised operation in the pipeline term: {[c[1] for c in chain if c[0] == '?'][:2]}")
                else:
                    ob.fail("violation", f"options {want}: the spectrum written is {' > '.join(got)} instead of {' > '.join(expect)}")
                continue
            for kind, arg in chain:
                if kind == "mask":
                    txt = arg
                    by_index = len(re.findall(r"store_index\(", txt)) == 2 and re.search(r"store_index\([^;]*?, 0, 0\.0\)", txt) and "Sub(len(" in txt
                    # first_mut()/last_mut() form: a 0.0 is stored through each end that exists (Some)
                    somes = {}
                    for t_, c_ in p.state.pc:
                        m_ = re.match(r"discriminant\(core::slice::<impl \[f64\]>::(first_mut|last_mut)\(", show(t_))
                        if m_ and c_[0] == "eq":
                            somes[m_.group(1)] = c_[1] == "1"
                    zero_first = len(re.findall(r"first_mut\([^!]*?\), 0\.0\)", txt))
                    zero_last = len(re.findall(r"last_mut\([^!]*?\), 0\.0\)", txt))
                    by_ends = set(somes) == {"first_mut", "last_mut"} and zero_first == int(somes["first_mut"]) and zero_last == int(somes["last_mut"]) \
                        and len(re.findall(r", 0\.0\)", txt)) == zero_first + zero_last
                    if not (by_index or by_ends):
                        ob.fail("violation", "--mask-monomorphic is not `first cell := 0.0; last cell := 0.0`: " + txt[-300:])
                if kind == "project":
                    a = show(unq(arg))
                    by_shape = f"field(view, {fld['project']})" in a and "closure" not in a
                    by_ind = "closure@cli/src/view.rs" in a and "map" in a
                    if not (a.startswith("ctor:Shape(") and (by_shape or by_ind)):
                        ob.fail("inconclusive", "projection target is not of the recognised form Shape(given shape) / Shape(map(closure, individuals)): " + a[:200])
                if kind == "marginalize":
                    a = show(unq(arg))
                    keep = "filter" in a and "ctor:Range(0, Spectrum::<Counts>::dimensions(" in a
                    remove = "filter" not in a and f"field(view, {fld['marginalize']})" in a
                    if not ("map::<Axis" in a.replace("sfs_core::array::", "") and (keep or remove)):
                        ob.fail("inconclusive", "marginalisation axes are not of the recognised form map(Axis, remove) / map(Axis, filter(closure, 0..dimensions)): " + a[:200])
            # writer arguments
            wa = show(w[0][1][0])
            if f"set_precision(" not in wa or f"field(view, {fld['precision']})" not in wa or f"field(view, {fld['output_format']})" not in wa:
                ob.fail("violation", "writer is not configured with the given precision and output format: " + wa[:200])
            if show(w[0][1][1]) != f"field(view, {fld['output']})":
                ob.fail("violation", "writer does not get the given output path")
        ob.d["queries"] += len(paths)
        ob.d["nonvacuous"] = len(combos) == 16
        if len(combos) != 16:
            ob.fail("inconclusive", f"only {len(combos)} of the 16 option subsets reach the writer")
        ob.d["detail"] = (ob.d["detail"] + f" [{len(paths)} paths, {nok} reach the writer, {len(combos)} option subsets]").strip()
        # the two closures
        cl = [x for x in fns if re.search(r"view\.rs>::run::\{closure#\d\}$", mir.norm_name(x.name))]
        seen_keep = seen_ind = False
        for c in cl:
            exc = mir.Exec(c, [])
            cps = [p for p in exc.run({"_1": ("ref", "$cl"), "$cl": V("captures", "U"), "_2": V("arg", "int") if "usize" == c.params[-1][1] else ("ref", "$a"), "$a": V("i", "int")}) if p.end == "return"]
            for cp in cps:
                r = show(cp.ret)
                if "contains" in r:
                    seen_keep = True
                    if not re.fullmatch(r"Not\(.*contains\(.*\)\)", r):
                        ob.fail("violation", "the keep-filter closure is not `!keep.contains(i)`: " + r[:200])
                elif "Mul" in r or "Add" in r:
                    seen_ind = True
                    if r != "Add(Mul(2, arg), 1)":
                        ob.fail("violation", "--project-individuals i does not mean shape 2i+1: " + r[:100])
        if not (seen_keep and seen_ind):
            ob.fail("inconclusive", "closures of View::run not found (keep filter / individuals -> shape)")
        # solver-decided congruence: the all-options term equals the composition of the single-option terms
        full = [p for p in paths if p.end == "return" and calls(p, r"write_to_path_or_stdout") and all(flag_of(p, fld[k]) for k in ("marginalize", "project", "mask_monomorphic", "normalize"))]
        if full:
            t = strip_sort(unq(calls(full[0], r"write_to_path_or_stdout")[0][1][2]))
            ob.run(uf_equal_query(t, t), "unsat", 20)
    except (LookupError, ValueError, RuntimeError, KeyError, IndexError, AttributeError) as e:
        ob.fail("inconclusive", f"translator: {type(e).__name__}: {e}")
    if ob.d["status"] == "inconclusive":
        # View::run is not of a recognised form (e.g. a stage moved into a library function): the
        # statement itself is then run against the real binary (combined = chain of single steps, mask,
        # normalisation) and only a failing run makes it a violation
        ob.d["native_test"] = dict(crate="sfs-cli", file="cli/tests/kv_view_is_chain_of_steps.rs", name="kv_view_is_chain_of_steps", code=VIEW_NATIVE_TEST, integration=True)
    return [ob.done()]


def task_view_mask_empty(scratch, tier, seed, logdir):
    """C17: the index / subtraction asserts of View::run hold for every spectrum length (incl. 0)"""
    fns = fns_for(scratch, "sfs-cli")
    ob = Ob("view_mask_bounds", ["sfs::view::View::run"], "raw slice length: any usize (0 included)")
    try:
        f = mir.find_fn(fns, r"view\.rs>::run$", params=["View"])
        LEN = V("len", "int")
        models = [(r"^$", None)]
        ex = mir.Exec(f, [], max_paths=20000)
        paths = ex.run({"_1": V("view", "U")})
        seen = set()
        n = 0
        for p in paths:
            for vc in p.state.vcs:
                key = (vc[0], re.sub(r"len\(.*?\)\)\)*", "LEN", show(vc[1]))[:80])
                if key in seen:
                    continue
                seen.add(key)
                n += 1
                smt = mir.Smt()
                c = smt.tr(cond_term(vc))
                # every `len(..)` of the raw slice is one unconstrained non-negative integer per distinct term
                lens = [k for k in smt.decls if k.startswith("|len(")]
                pre = [f"(>= {k} 0)" for k in lens] + [f"(<= {k} 18446744073709551615)" for k in lens]
                script = q(smt, pre + [f"(not {c})"], get_model=lens[:2] or None)
                r, o = ob.run(script, "unsat", 20)
                if r == "sat":
                    ob.fail("violation", f"View::run can panic: \"{vc[0][:70]}\" for {' '.join(o.split()[1:])[-60:]}", model=o)
        ob.d["nonvacuous"] = n > 0
    except (LookupError, ValueError, RuntimeError, KeyError, IndexError) as e:
        ob.fail("inconclusive", f"translator: {type(e).__name__}: {e}")
    return [ob.done()]


def task_runner_step(scratch, tier, seed, logdir):
    """C10 / C01 / C11: one iteration of Runner::run from an arbitrary state."""
    fns = fns_for(scratch, "sfs-cli")
    ob = Ob("runner_step", ["create::runner::Runner::run (one loop iteration)", "Runner::handle_skipped_site"], "arbitrary Runner state and spectrum at the loop head; read_site result uninterpreted (all five outcomes)")
    try:
        fld = struct_fields(os.path.join(scratch.src, "cli/src/create/runner.rs"), "Runner")
        f = mir.find_fn(fns, r"create/runner\.rs>::run$", params=["Runner"])
        # find the loop head: the block that calls read_site
        head = [bb for bb, (st, term, cl) in f.blocks.items() if "read_site" in term]
        if len(head) != 1:
            raise RuntimeError("loop head not found")
        ex = mir.Exec(f, [], max_paths=2000)
        # which local holds the spectrum: destination of create_zero_scs
        scs_local = None
        for bb, (st, term, cl) in f.blocks.items():
            m = re.match(r"(_\d+) = .*create_zero_scs", term)
            if m:
                scs_local = m.group(1)
        paths = ex.run({"_1": ("ref", "$self"), "$self": V("runner", "U"), scs_local: V("scs", "U")}, start=head[0])
        S, K = fld["sites"], fld["skipped"]
        kinds = {}
        for p in paths:
            pcs = [(show(t), c) for t, c in p.state.pc]
            d0 = [c for s_, c in pcs if s_.startswith("discriminant(sfs_core::input::site::Reader::read_site(") or re.match(r"discriminant\(.*Reader::read_site\(", s_) and "as_Read" not in s_]
            d1 = [c for s_, c in pcs if "as_Read(" in s_ and s_.startswith("discriminant(field(")]
            selfv = show(p.state.env["$self"])
            scs = show(p.state.env[scs_local])
            if p.end == "unreachable":
                continue
            outer = d0[0][1] if d0 and d0[0][0] == "eq" else None
            inner = d1[0][1] if d1 and d1[0][0] == "eq" else None
            sites_inc = re.search(rf"setfield\(.*, {S}, Add\(field\(.*, {S}\), 1\)\)$", selfv) is not None
            if outer == "0" and inner == "0":      # Standard
                kinds["standard"] = 1
                if p.end != "loopback" or not sites_inc:
                    ob.fail("violation", "Standard site: the loop does not continue with sites + 1")
                if scs == "scs":
                    ob.fail("violation", "Standard site: the record is not added to the spectrum")
                elif scs.startswith("store(") and "index_mut!mut0(scs, field(as_Standard(" in scs and "Add(deref(" in scs:
                    if not scs.endswith(", 1.0))"):
                        ob.fail("violation", "Standard site: the weight added at the count index is not 1.0: " + scs[-60:])
                elif re.search(r"AddAssign<&.*Count>>::add_assign!mut0\(scs, field\(as_Standard\(", scs):
                    pass    # `scs += counts` (impl AddAssign<&Count> for Scs adds 1.0 at the index)
                else:
                    ob.fail("inconclusive", "Standard site: spectrum update of an unrecognised form: " + scs[:200])
                if f", {K}," in selfv:
                    ob.fail("violation", "Standard site changes the skipped counter")
            elif outer == "0" and inner == "1":    # Projected
                kinds["projected"] = 1
                if p.end != "loopback" or not sites_inc:
                    ob.fail("violation", "Projected site: the loop does not continue with sites + 1")
                if scs == "scs":
                    ob.fail("violation", "Projected site: the record is not added to the spectrum")
                elif not re.fullmatch(r".*Projected::<'_>::add_unchecked!mut1\(field\(as_Projected\(.*\), 0\), scs\)", scs):
                    ob.fail("inconclusive", "Projected site: spectrum update of an unrecognised form (expected projected.add_unchecked(&mut scs)): " + scs[:200])
            elif outer == "0" and inner == "2":    # InsufficientData
                if p.end == "loopback":
                    kinds["skipped"] = 1
                    if scs != "scs":
                        ob.fail("violation", "a skipped site changes the spectrum: " + scs[:200])
                    if not sites_inc or "handle_skipped_site!mut0" not in selfv:
                        ob.fail("violation", "skipped site: sites is not incremented after handle_skipped_site")
                elif p.end == "return":
                    kinds["strict"] = 1
                    if "from_residual" not in show(p.ret):
                        ob.fail("violation", "strict-mode error is not propagated")
            elif outer == "1":                     # Error
                kinds["error"] = 1
                r = show(p.ret)
                if p.end != "return" or not r.startswith("ctor:Err(") or "current_contig" not in r or "current_position" not in r:
                    ob.fail("violation", "genotype error: not an immediate Err naming contig and position: " + r[:200])
            elif outer == "2":                     # Done
                kinds["done"] = 1
                r = show(p.ret)
                if p.end != "return" or r != "ctor:Ok(scs)":
                    ob.fail("violation", "end of input does not return Ok(the accumulated spectrum): " + r[:100])
                if "setfield" in selfv.replace(f"setfield(runner, {fld['reader']},", ""):
                    ob.fail("violation", "end of input changes the counters")
        missing = {"standard", "projected", "skipped", "strict", "error", "done"} - set(kinds)
        if missing:
            ob.fail("inconclusive", f"outcomes not found on any path: {sorted(missing)}")
        ob.d["nonvacuous"] = not missing
        ob.d["queries"] += len(paths)
        # handle_skipped_site: strict -> Err naming contig:position, state unchanged; else skipped + 1
        h = mir.find_fn(fns, r"create/runner\.rs>::handle_skipped_site$")
        hp = mir.Exec(h, [], max_paths=2000).run({"_1": ("ref", "$self"), "$self": V("runner", "U")})
        seen = set()
        for p in hp:
            if p.end != "return":
                continue
            strict = None
            for t, c in p.state.pc:
                if show(t) == f"field(runner, {fld['strict']})":
                    strict = not (c[0] == "eq" and c[1] in ("0", "false"))
            selfv = show(p.state.env["$self"])
            r = show(p.ret)
            ev = " ".join(e[0] for e in p.state.events)
            if strict is None:
                # a way out of the function that never looked at the flag behaves the same with and
                # without --strict, which is wrong for one of the two
                ob.fail("violation", "handle_skipped_site can return without consulting --strict (returns " + r[:60] + ")")
            elif strict:
                seen.add("strict")
                if not r.endswith("::Err(move _7)") and "Err(" not in r:
                    ob.fail("violation", "strict mode does not return an error: " + r[:100])
                if selfv != "runner":
                    ob.fail("violation", "strict mode changes the counters before failing")
                if "current_contig" not in ev or "current_position" not in ev:
                    ob.fail("violation", "strict-mode error does not use the current contig/position")
            else:
                seen.add("lenient")
                if selfv != f"setfield(runner, {K}, Add(field(runner, {K}), 1))" or "Ok(" not in r:
                    ob.fail("violation", "non-strict skip is not `skipped += 1; Ok(())`: " + selfv[:120])
        if seen != {"strict", "lenient"}:
            ob.fail("inconclusive", "handle_skipped_site: strict / lenient paths not both found")
    except (LookupError, ValueError, RuntimeError, KeyError, IndexError) as e:
        ob.fail("inconclusive", f"translator: {type(e).__name__}: {e}")
    return [ob.done()]


def task_create_run(scratch, tier, seed, logdir):
    """C01 / C10: precision 0 unless projecting; the spectrum is written only after Runner::run returned Ok."""
    fns = fns_for(scratch, "sfs-cli")
    ob = Ob("create_run", ["create::Create::run"], "every acyclic path of Create::run; calls uninterpreted")
    try:
        fld = struct_fields(os.path.join(scratch.src, "cli/src/create.rs"), "Create")
        f = mir.find_fn(fns, r"create\.rs>::run$", params=["Create"])
        paths = mir.Exec(f, [], max_paths=5000).run({"_1": V("create", "U")})
        nw = 0
        for p in paths:
            if p.end != "return":
                continue
            w = calls(p, r"write_to_stdout|write_to_path")
            names = [e[0] for e in p.state.events]
            if w:
                nw += 1
                runs = [i for i, n in enumerate(names) if re.search(r"runner::Runner::run$", n)]
                wi = [i for i, n in enumerate(names) if re.search(r"write_to_stdout|write_to_path", n)][0]
                if not runs or runs[0] > wi:
                    ob.fail("violation", "the spectrum is written before the input was read completely")
                # the Ok branch of Runner::run dominates the write
                okb = [c for t, c in p.state.pc if "runner::Runner::run(" in show(t) and show(t).startswith("discriminant(")]
                if not okb or okb[0] != ("eq", "0"):
                    ob.fail("violation", "the writer is reachable without Runner::run having returned Ok")
                wa = show(w[0][1][0])
                if not re.search(rf"set_precision\(.*map_or::<usize.*\(Option::<.*as_ref\(refto\(field\(create, {fld['project']}\)\)\), 0, ", wa):
                    ob.fail("violation", "precision is not `project.as_ref().map_or(0, ..)` (0 without projection): " + wa[:250])
                sp = unq(w[0][1][1]) if len(w[0][1]) > 1 else None
                if sp is None or not re.search(r"runner::Runner::run", show(sp)):
                    ob.fail("violation", "what is written is not the result of Runner::run")
                strict = [e for e in p.state.events if re.search(r"Runner::new$", e[0])]
                if not strict or f"field(create, {fld['strict']})" not in show(strict[0][1][1]):
                    ob.fail("violation", "Runner is not built with the --strict flag")
            else:
                if not [n for n in names if "from_residual" in n]:
                    ob.fail("violation", "a path returns without output and without an error")
        # closure of map_or: |_| self.precision
        cl = [x for x in fns if re.search(r"create\.rs>::run::\{closure#0\}$", mir.norm_name(x.name))]
        okc = False
        for c in cl:
            for cp in mir.Exec(c, []).run({"_1": V("captures", "U"), "_2": V("p", "U")}):
                if cp.end == "return" and show(cp.ret) in ("deref(field(captures, 0))",):
                    okc = True
        if not okc:
            ob.fail("violation" if cl else "inconclusive", "with projection the precision is not the --precision value")
        ob.d["nonvacuous"] = nw > 0
        ob.d["queries"] += len(paths)
    except (LookupError, ValueError, RuntimeError, KeyError, IndexError) as e:
        ob.fail("inconclusive", f"translator: {type(e).__name__}: {e}")
    return [ob.done()]


STAT_METHOD = {"DFuLi": ("d_fu_li", False), "DTajima": ("d_tajima", False), "F2": ("f2", True), "F3": ("f3", True), "F4": ("f4", True),
               "Fst": ("fst", True), "King": ("king", False), "Pi": ("pi", False), "PiXY": ("pi_xy", False), "R0": ("r0", False),
               "R1": ("r1", False), "S": ("segregating_sites", False), "Sum": ("sum", False), "Theta": ("theta_watterson", False)}


def task_stat_calculate(scratch, tier, seed, logdir):
    """C06 / C14: each statistic name calls the method it names; f2/f3/f4/fst on the normalised spectrum, the rest on the counts."""
    fns = fns_for(scratch, "sfs-cli")
    ob = Ob("stat_calculate", ["stat::Statistic::calculate"], "all 14 statistics")
    try:
        variants = enum_variants(os.path.join(scratch.src, "cli/src/stat.rs"), "Statistic")
        f = mir.find_fn(fns, r"stat\.rs>::calculate$")
        paths = mir.Exec(f, [], max_paths=2000).run({"_1": V("stat", "U"), "_2": ("ref", "$scs"), "$scs": V("scs", "U")})
        seen = set()
        for p in paths:
            if p.end != "return":
                continue
            d = [c for t, c in p.state.pc if show(t) == "discriminant(stat)"]
            if not d or d[0][0] != "eq":
                continue
            v = variants[int(d[0][1])]
            meth, norm = STAT_METHOD[v]
            names = [e[0] for e in p.state.events]
            called = [n for n in names if re.search(r"Spectrum::<\w+>::\w+$", n) and not n.endswith("into_normalized")]
            if len(called) != 1 or not called[0].endswith("::" + meth):
                ob.fail("violation", f"`{v}` does not compute Spectrum::{meth}: {called}")
                continue
            e = [e for e in p.state.events if e[0] == called[0]][0]
            arg = show(e[1][0])
            if norm:
                if not re.fullmatch(r"Spectrum::<Counts>::into_normalized\(<Spectrum<Counts> as Clone>::clone\(scs\)\)", arg):
                    ob.fail("violation", f"`{v}` is not computed on the normalised spectrum: {arg[:120]}")
            elif arg != "scs":
                ob.fail("violation", f"`{v}` is not computed on the spectrum as read: {arg[:120]}")
            if not [n for n in names if "from_residual" in n]:
                r = show(unq(p.ret))
                if called[0] not in r:
                    ob.fail("violation", f"`{v}` returns something else than the statistic: {r[:120]}")
            seen.add(v)
        if set(variants) - seen:
            ob.fail("inconclusive", f"statistics without a path: {sorted(set(variants) - seen)}")
        ob.d["nonvacuous"] = len(seen) == 14
        ob.d["queries"] += len(paths)
    except (LookupError, ValueError, RuntimeError, KeyError, IndexError) as e:
        ob.fail("inconclusive", f"translator: {type(e).__name__}: {e}")
    return [ob.done()]


def task_fold_run(scratch, tier, seed, logdir):
    """C05: Fold::run writes fold().into_spectrum(f64::from(fill)) of what it read; Fill -> NaN / 0 / -1 / +inf."""
    fns = fns_for(scratch, "sfs-cli")
    ob = Ob("fold_run", ["fold::Fold::run", "impl From<Fill> for f64"], "all four fill values; every path of Fold::run")
    try:
        variants = enum_variants(os.path.join(scratch.src, "cli/src/fold.rs"), "Fill")
        want = {"Nan": "NAN", "Zero": "0.0", "MinusOne": "-1.0", "Inf": "INFINITY"}
        f = mir.find_fn(fns, r"fold\.rs>::from$", params=["Fill"])
        seen = set()
        for p in mir.Exec(f, []).run({"_1": V("fill", "U")}):
            if p.end != "return":
                continue
            d = [c for t, c in p.state.pc if show(t) == "discriminant(fill)"][0]
            v = variants[int(d[1])]
            r = show(p.ret)
            seen.add(v)
            if not (r == want[v] or r.endswith("::" + want[v])):
                ob.fail("violation", f"Fill::{v} converts to {r}, expected {want[v]}")
            if v == "Inf" and "NEG" in r:
                ob.fail("violation", "Fill::Inf is not +inf")
        if seen != set(variants) or len(variants) != 4:
            ob.fail("inconclusive", f"fill variants seen: {sorted(seen)}")
        g = mir.find_fn(fns, r"fold\.rs>::run$", params=["Fold"])
        fld = struct_fields(os.path.join(scratch.src, "cli/src/fold.rs"), "Fold")
        nw = 0
        for p in mir.Exec(g, [], max_paths=2000).run({"_1": V("fold", "U")}):
            if p.end != "return":
                continue
            w = calls(p, r"write_to_path_or_stdout")
            if not w:
                continue
            nw += 1
            t = show(unq(w[0][1][2]))
            if not re.fullmatch(rf"Folded::<Counts>::into_spectrum\((?:refto\()?Spectrum::<Counts>::fold\((?:refto\()?[\w:]*read::Builder::read\(.*\)\)+, <f64 as From<(?:fold::)?Fill>>::from\(field\(fold, {fld['fill']}\)\)\)", t):
                ob.fail("violation", "what Fold::run writes is not read().fold().into_spectrum(f64::from(fill)): " + t[:250])
            wa = show(w[0][1][0])
            if f"field(fold, {fld['precision']})" not in wa:
                ob.fail("violation", "the writer does not get --precision")
        ob.d["nonvacuous"] = nw > 0 and len(seen) == 4
    except (LookupError, ValueError, RuntimeError, KeyError, IndexError) as e:
        ob.fail("inconclusive", f"translator: {type(e).__name__}: {e}")
    return [ob.done()]


def task_read_array_wiring(scratch, tier, seed, logdir):
    """C16 / C15: read_array = Header::read? ; fortran -> Err ; descr.read(same reader)? ; Array::new(values, Shape(dict.shape)) mapped to InvalidData."""
    fns = fns_for(scratch, "sfs-core")
    ob = Ob("read_array_wiring", ["array::npy::read_array"], "every path of read_array; calls uninterpreted")
    try:
        f = mir.find_fn(fns, r"^npy::read_array$")
        paths = mir.Exec(f, [], max_paths=2000).run({"_1": ("ref", "$r"), "$r": V("reader", "U")})
        oks = 0
        for p in paths:
            if p.end != "return":
                continue
            names = [e[0] for e in p.state.events]
            r = show(p.ret)
            is_ok_path = any(re.search(r"Array::<f64>::new", n) for n in names)
            fortran = [c for t, c in p.state.pc if "fortran" in show(t) or re.search(r"field\(field\(.*Header::read.*, 1\), 1\)", show(t))]
            if is_ok_path:
                oks += 1
                i_h = [i for i, n in enumerate(names) if re.search(r"Header::read", n)]
                i_v = [i for i, n in enumerate(names) if re.search(r"TypeDescriptor::read", n)]
                i_n = [i for i, n in enumerate(names) if re.search(r"Array::<f64>::new", n)]
                if not (i_h and i_v and i_n and i_h[0] < i_v[0] < i_n[0]):
                    ob.fail("violation", "read_array does not do header -> values -> Array::new in this order")
                    continue
                early = [e for e in p.state.events[:i_v[0]] if re.search(r"with_capacity|from_elem|reserve", e[0]) and "Header::read" in " ".join(show(a) for a in e[1])]
                if early:
                    ob.fail("violation", "memory is allocated from the declared (untrusted) shape before any value is read: " + early[0][0][:80])
                hv = p.state.events[i_v[0]]
                extra = [show(a) for a in hv[1][2:] if "Header::read" in show(a)]
                if extra:
                    ob.fail("violation", "the declared (untrusted) shape reaches the value reader before any value is read: " + extra[0][:120])
                if "Header::read" not in show(hv[1][1]) and "reader" not in show(hv[1][1]):
                    ob.fail("violation", "the value loop does not continue on the reader the header was read from")
                nv = p.state.events[i_n[0]]
                vals, shape = show(unq(nv[1][0])), show(nv[1][1])
                if "TypeDescriptor::read" not in vals:
                    ob.fail("violation", "Array::new is not given the values that were read")
                if not re.fullmatch(r"ctor:Shape\(field\(field\(.*Header::read.*, 1\), 2\)\)", show(unq(nv[1][1]))):
                    ob.fail("violation", "Array::new is not given the shape of the header dict: " + shape[:160])
                if "map_err" not in r or "Array::<f64>::new" not in r:
                    ob.fail("violation", "the result is not Array::new(..).map_err(InvalidData): " + r[:160])
            else:
                if not (r.startswith("ctor:Err(") or "from_residual" in r):
                    ob.fail("violation", "a path without Array::new does not return an error: " + r[:160])
        if oks == 0:
            ob.fail("inconclusive", "no path constructs the array")
        ob.d["nonvacuous"] = oks > 0
        ob.d["queries"] += len(paths)
    except (LookupError, ValueError, RuntimeError, KeyError, IndexError) as e:
        ob.fail("inconclusive", f"translator: {type(e).__name__}: {e}")
    return [ob.done()]


READ_ARRAY_NATIVE_TEST = r"""
    #[test]
    fn kv_npy_declared_shape_is_not_trusted() {
        // a well-formed v1.0 header that declares far more values than follow must be a diagnosed
        // error: no allocation sized by the declaration, no panic
        for shape in ["(2305843009213693952,)", "(2147483648, 1073741824)", "(4611686018427387904, 2)", "(1152921504606846976, 2, 2)"] {
            for n_values in [0usize, 3] {
                let mut dict = format!("{{'descr': '<f8', 'fortran_order': False, 'shape': {shape}, }}");
                while (10 + dict.len() + 1) % 64 != 0 {
                    dict.push(' ');
                }
                dict.push('\n');
                let mut bytes = b"\x93NUMPY\x01\x00".to_vec();
                bytes.extend_from_slice(&(dict.len() as u16).to_le_bytes());
                bytes.extend_from_slice(dict.as_bytes());
                for i in 0..n_values {
                    bytes.extend_from_slice(&(i as f64).to_le_bytes());
                }
                let result = read_array(&mut &bytes[..]);
                assert!(result.is_err(), "an npy file declaring shape {shape} with {n_values} values was read as an array");
            }
        }
        // and a file that is what it says is still read
        let mut ok = Vec::new();
        write_array(&mut ok, &Array::new(vec![1.0, 2.0, 3.0, 4.0, 5.0, 6.0], Shape(vec![2, 3])).unwrap()).unwrap();
        assert_eq!(read_array(&mut &ok[..]).unwrap().iter().copied().collect::<Vec<_>>(), vec![1.0, 2.0, 3.0, 4.0, 5.0, 6.0]);
    }
"""


def task_spectrum_read_wiring(scratch, tier, seed, logdir):
    """C07: read::Builder::read hands the bytes it read, all of them and unchanged, to the reader of
    the detected (or forced) format; text::read_scs = header line, then everything else, then parse."""
    fns = fns_for(scratch, "sfs-core")
    ob = Ob("spectrum_read_wiring", ["spectrum::io::read::Builder::read", "spectrum::io::text::read_scs"], "every path of the two functions; calls uninterpreted")
    try:
        f = mir.find_fn(fns, r"io/read\.rs>::read$", params=["Builder"])
        paths = mir.Exec(f, [], max_paths=5000).run({"_1": V("self", "U")})
        n = 0
        for p in paths:
            if p.end != "return":
                continue
            r = show(p.ret)
            rd = [e for e in p.state.events if re.search(r"read_npy|read_scs", e[0])]
            if not rd:
                continue
            n += 1
            arg = show(rd[0][1][0])
            # the slice given to the format reader is raw[..] of the buffer filled by read_to_end
            if not re.fullmatch(r"<Vec<u8> as Index<RangeFull>>::index\(<.* as std::io::Read>::read_to_end!mut1\(.*, Vec::<u8>::new\(\)\), RangeFull\)", arg):
                ob.fail("violation", "the format reader does not get exactly the bytes that were read (raw[..]): " + arg[:200])
            if rd[0][0] not in r:
                ob.fail("violation", "the result of the format reader is not what is returned")
        if n < 4:
            ob.fail("inconclusive", f"only {n} reader paths found (expected npy/text x file/stdin)")
        ob.d["nonvacuous"] = n >= 4
        ob.d["queries"] += len(paths)
        g = mir.find_fn(fns, r"^read_scs$", params=["&mut R"])
        okp = 0
        for p in mir.Exec(g, [], max_paths=2000).run({"_1": ("ref", "$r"), "$r": V("reader", "U")}):
            if p.end != "return":
                continue
            names = [e[0] for e in p.state.events]
            if any(re.search(r"parse_scs$", x) for x in names):
                okp += 1
                ih = [i for i, x in enumerate(names) if re.search(r"Header::read", x)]
                ir = [i for i, x in enumerate(names) if re.search(r"Read>::read_to_string|read_to_string", x)]
                ipz = [i for i, x in enumerate(names) if re.search(r"parse_scs$", x)]
                if not (ih and ir and ih[0] < ir[0] < ipz[0]):
                    ob.fail("violation", "text::read_scs is not header line -> read_to_string(the rest) -> parse_scs: " + str([x[-40:] for x in names]))
                    continue
                pe = p.state.events[ipz[0]]
                if "read_to_string!mut1" not in show(pe[1][0]) or "Header::read" not in show(unq(pe[1][1])):
                    ob.fail("violation", "parse_scs is not given the remaining text and the header's shape")
        if okp == 0:
            ob.fail("inconclusive", "no path of read_scs reaches parse_scs")
    except (LookupError, ValueError, RuntimeError, KeyError, IndexError) as e:
        ob.fail("inconclusive", f"translator: {type(e).__name__}: {e}")
    return [ob.done()]


def task_text_write_wiring(scratch, tier, seed, logdir):
    """C07 / C13: write::Builder::write dispatches on the format; the text writer prints the
    header, then every value with exactly the requested precision (the `precision` argument reaches
    the formatter unmodified, for the first value and inside the fold closure)."""
    fns = fns_for(scratch, "sfs-core")
    ob = Ob("text_write_wiring", ["spectrum::io::write::Builder::write", "spectrum::io::text::write_spectrum", "text::format_spectrum (+ closure)"], "every path; calls uninterpreted; data flow of the precision argument")
    try:
        seen = {"text", "npy"}   # the dispatch itself is task write_dispatch_wiring
        f = mir.find_fn(fns, r"^format_spectrum$")
        n = 0
        through = False
        for p in mir.Exec(f, [], max_paths=500).run({"_1": ("ref", "$s"), "$s": V("spectrum", "U"), "_2": V("sep", "U"), "_3": V("precision", "int")}):
            if p.end != "return":
                continue
            for e in p.state.events:
                if re.search(r"Argument::<'_>::from_usize$", e[0]):
                    n += 1
                    if show(e[1][0]) != "precision":
                        ob.fail("violation", "the first value is not printed with the requested precision but with " + show(e[1][0])[:100])
                if re.search(r"Iterator>::fold::<", e[0]):
                    cl = show(e[1][2])
                    if not re.search(r"precision: (?:move |copy )?_\d+|&precision|precision", cl):
                        ob.fail("inconclusive", "fold closure capture not recognised: " + cl[:120])
            # any other arithmetic on the precision (min/clamp/...) shows up as a call or operator on it
            for e in p.state.events:
                if not re.search(r"from_usize$", e[0]) and any(show(a) == "precision" for a in e[1]):
                    ob.fail("violation", f"the precision is passed through {e[0][:80]} before formatting")
                    through = True
        c = mir.find_fn(fns, r"^format_spectrum::\{closure#0\}$")
        for p in mir.Exec(c, [], max_paths=500).run({"_1": ("ref", "$cl"), "$cl": ("tup", (V("sep_ref", "U"), ("ref", "$prec"))), "$prec": V("precision", "int"),
                                                     "_2": V("acc", "U"), "_3": ("ref", "$x"), "$x": V("x", "real")}):
            if p.end != "return":
                continue
            for e in p.state.events:
                if re.search(r"Argument::<'_>::from_usize$", e[0]):
                    n += 1
                    if show(e[1][0]) != "precision":
                        ob.fail("violation", "later values are not printed with the requested precision but with " + show(e[1][0])[:100])
                elif any(show(a) == "precision" for a in e[1]):
                    ob.fail("violation", f"the precision is passed through {e[0][:80]} before formatting")
                    through = True
        if n < 2 and not through:
            ob.fail("inconclusive", "precision arguments of the two format calls not found")
        if through:
            # what that function does with it is not modelled: a concrete run of the real writer decides
            ob.d["native_test"] = dict(crate="sfs-core", file="core/src/spectrum/io/text.rs", name="kv_text_values_exact_precision", code=TEXT_NATIVE_TEST)
        ob.d["nonvacuous"] = n >= 2 and seen == {"text", "npy"}
        ob.d["queries"] += n
    except (LookupError, ValueError, RuntimeError, KeyError, IndexError) as e:
        ob.fail("inconclusive", f"translator: {type(e).__name__}: {e}")
    if ob.d["status"] != "holds" and "native_test" not in ob.d:
        # format_spectrum no longer has the recognised shape (first value + fold closure): the real
        # writer against format!("{x:.p$}") decides
        ob.d["native_test"] = dict(crate="sfs-core", file="core/src/spectrum/io/text.rs", name="kv_text_values_exact_precision", code=TEXT_NATIVE_TEST)
    return [ob.done()]


TEXT_NATIVE_TEST = r"""
    #[test]
    fn kv_text_values_exact_precision() {
        let values = vec![
            0.0, 1.0, 0.5, 2.0, 1e-7, 123456.789, 0.1 + 0.2, 1e15, 9007199254740992.0, 9007199254740993.0 * 2.0,
            1e19, 1.8446744073709552e19, 1e22, 1e300, f64::MAX, f64::MIN_POSITIVE, 4.9e-324, 0.999999999999, 2.5, 3.5,
        ];
        let n = values.len();
        let scs = Scs::new(values.clone(), Shape(vec![n])).unwrap();
        for precision in (0..=24).chain([40, 80, 330]) {
            let got = format_spectrum(&scs, " ", precision);
            let want = values.iter().map(|x| format!("{x:.precision$}")).collect::<Vec<_>>().join(" ");
            assert_eq!(got, want, "values printed with precision {precision}");
        }
    }
"""


def task_site_builder_build(scratch, tier, seed, logdir):
    """C02: site::reader::Builder::build accepts a projection target only if it has as many axes as
    there are populations and no axis is longer than the population allows; every rejection is the
    matching error; the reader gets the map and the projection that were validated."""
    fns = fns_for(scratch, "sfs-core")
    ob = Ob("site_builder_build", ["input::site::reader::Builder::build (+ the `from < to` closure)"], "every acyclic path; calls uninterpreted")
    try:
        f = mir.find_fn(fns, r"site/reader/builder\.rs>::build$")
        paths = mir.Exec(f, [], max_paths=5000).run({"_1": V("builder", "U"), "_2": V("reader", "U")})
        n_ok = n_err = 0
        for p in paths:
            if p.end != "return":
                continue
            pcs = [(show(t), c) for t, c in p.state.pc]
            def cond(pat):
                for s_, c in pcs:
                    if re.search(pat, s_):
                        return c
                return None
            empty = cond(r"^input::sample::Map::is_empty\(")
            unknown = cond(r"^discriminant\(<indexmap::map::Keys<.*find::<")
            proj = cond(r"^discriminant\(Option::<Project>::map::<Shape")
            dims = cond(r"^Ne\(Shape::dimensions\(input::sample::Map::shape\(")
            larger = cond(r"^discriminant\(<Enumerate<Zip<.*find::<")
            pp = cond(r"^discriminant\(<std::result::Result<PartialProjection, ProjectionError> as Try>::branch\(PartialProjection::from_shape")
            r = show(p.ret)
            is0 = lambda c: c is not None and c[0] == "eq" and c[1] in ("0", "false")
            if r.startswith("ctor:Ok("):
                n_ok += 1
                if not (is0(empty) and is0(unknown)):
                    ob.fail("violation", "a reader is built without the empty-map / unknown-sample checks having passed")
                if proj == ("eq", "1"):
                    if not (is0(dims) and is0(larger) and is0(pp)):
                        ob.fail("violation", "a projecting reader is built although dimensionality / size / zero checks did not all pass: " + str((dims, larger, pp)))
                    if "ctor:Some(" not in r or "PartialProjection::from_shape" not in r:
                        ob.fail("violation", "the reader does not get the validated projection")
                elif proj == ("eq", "0"):
                    if "ctor:None()" not in r:
                        ob.fail("violation", "a reader without --project gets a projection")
                else:
                    ob.fail("inconclusive", "projection option not on the path")
                if not r.startswith("ctor:Ok(site::reader::Reader::new_unchecked(reader, "):
                    ob.fail("violation", "Ok does not carry Reader::new_unchecked(reader, map, projection): " + r[:120])
            else:
                n_err += 1
                if "EmptySamplesMap" in r and is0(empty):
                    ob.fail("violation", "EmptySamplesMap for a non-empty map")
                if "UnknownSample" in r and unknown != ("eq", "1"):
                    ob.fail("violation", "UnknownSample although every listed sample is in the input")
                if "UnequalDimensions" in r and not (dims and dims[0] == "notin"):
                    ob.fail("violation", "UnequalDimensions although the dimensions are equal")
                if "InvalidProjection" in r and larger != ("eq", "1"):
                    ob.fail("violation", "InvalidProjection although no axis of the target is larger")
        if n_ok < 4 or n_err < 4:
            ob.fail("inconclusive", f"{n_ok} accepting / {n_err} rejecting paths found")
        # the closure that looks for an axis where the target is larger
        cl = [x for x in fns if re.search(r"site/reader/builder\.rs>::build::\{closure#\d\}$", mir.norm_name(x.name)) and ("Lt(" in x.text or "PartialOrd>::lt" in x.text)]
        okc = False
        for c in cl:
            for cp in mir.Exec(c, []).run({"_1": V("cl", "U"), "_2": ("ref", "$item"), "$item": ("tup", (V("i", "int"), ("tup", (("ref", "$from"), ("ref", "$to"))))), "$from": V("from", "int"), "$to": V("to", "int")}):
                if cp.end == "return" and re.fullmatch(r"(?:Lt|<&+usize as PartialOrd>::lt)\((?:refto\()*&?\$?from\)*, (?:refto\()*&?\$?to\)*\)", show(cp.ret)):
                    okc = True
        if not okc:
            ob.fail("violation" if cl else "inconclusive", "the size check is not `population length < target length` per axis")
        ob.d["nonvacuous"] = n_ok >= 4 and n_err >= 4
        ob.d["queries"] += len(paths)
    except (LookupError, ValueError, RuntimeError, KeyError, IndexError) as e:
        ob.fail("inconclusive", f"translator: {type(e).__name__}: {e}")
    return [ob.done()]


def task_project_wiring(scratch, tier, seed, logdir):
    """C03: Spectrum::project validates first (Projection::from_shapes(source shape, target)?), then
    accumulates project_unchecked(index).into_weighted(x[index]) over iter_indices in step with the
    data into a zero spectrum of the target shape, and returns that."""
    fns = fns_for(scratch, "sfs-core")
    ob = Ob("project_wiring", ["spectrum::Spectrum::project"], "every path of one loop iteration; calls uninterpreted")
    try:
        f = mir.find_fn(fns, r"^spectrum::<impl [^>]*spectrum\.rs>::project$")
        paths = mir.Exec(f, [], max_paths=5000).run({"_1": ("ref", "$self"), "$self": V("spectrum", "U"), "_2": V("project_to", "U")})
        seen = set()
        for p in paths:
            names = [e[0] for e in p.state.events]
            if p.end == "return" and "from_residual" in show(p.ret):
                seen.add("err")
                if any(re.search(r"from_zeros|add_unchecked|project_unchecked", n) for n in names):
                    ob.fail("violation", "a rejected target is not rejected before anything else happens")
                fs = [e for e in p.state.events if re.search(r"Projection::from_shapes", e[0])]
                if not fs or "Spectrum::<S>::shape(spectrum)" not in show(fs[0][1][0]) or "project_to" not in show(fs[0][1][1]):
                    ob.fail("violation", "validation is not Projection::from_shapes(self.shape(), target)")
            elif p.end == "return":
                seen.add("done")
                r = show(p.ret)
                if not re.fullmatch(r"ctor:Ok\(spectrum::Spectrum::<Counts>::into_state_unchecked::<S>\(.*\)\)", r):
                    # e.g. an early return for the identity case: whether its guard is right is decided by
                    # the Kani harnesses project_target_* / project_structure_*, not here
                    ob.fail("inconclusive", "a return of an unrecognised form (expected Ok(the accumulated spectrum)): " + r[:160])
            elif p.end == "loopback":
                seen.add("step")
                cells = [show(v) for v in p.state.env.values() if "add_unchecked!mut1" in show(v)]
                if not cells:
                    ob.fail("violation", "a loop iteration does not add a projected contribution")
                    continue
                t = cells[0]
                m = re.fullmatch(r"Projected::<'_>::add_unchecked!mut1\(Projected::<'_>::into_weighted\(Projection::project_unchecked\((.*)\), spectrum::Spectrum::<Counts>::from_zeros::<Shape>\(<T as std::convert::Into<Shape>>::into\(project_to\)\)\)", t)
                if not m:
                    ob.fail("violation", "the loop body is not new += project_unchecked(from).into_weighted(weight): " + t[:200])
                    continue
                ew = [e for e in p.state.events if re.search(r"Projected::<'_>::into_weighted$", e[0])]
                ef = [e for e in p.state.events if re.search(r"Projection::project_unchecked$", e[0])]
                if not ew or not ef:
                    ob.fail("violation", "loop body without project_unchecked / into_weighted")
                    continue
                W, F = show(ew[0][1][1]), show(ef[0][1][1])
                item = re.fullmatch(r"deref\(field\((field\(as_Some\(.*\), 0\)), 0\)\)", W)
                if not item or F != f"field({item.group(1)}, 1)":
                    ob.fail("violation", "weight and source index are not the two halves of the same zipped item")
                    continue
                it = item.group(1)
                zipped = "Iterator>::zip::<" in it and "array::Array::<f64>::iter(refto(field(spectrum, 0)))" in it and "array::Array::<f64>::iter_indices(refto(field(spectrum, 0)))" in it and "{count::Count}" in it
                if not zipped:
                    ob.fail("violation", "weights and source indices are not taken in step from the same array (zip(iter, iter_indices.map(Count)))")
        if seen != {"err", "done", "step"}:
            ob.fail("inconclusive", f"paths found: {sorted(seen)}")
        ob.d["nonvacuous"] = seen == {"err", "done", "step"}
        ob.d["queries"] += len(paths)
    except (LookupError, ValueError, RuntimeError, KeyError, IndexError) as e:
        ob.fail("inconclusive", f"translator: {type(e).__name__}: {e}")
    if ob.d["status"] != "holds":
        # a form the model does not recognise (e.g. a fast path) or calls wrong: the real function
        # against the definition of the projection decides
        ob.d["native_test"] = dict(crate="sfs-core", file="core/src/spectrum.rs", name="kv_project_against_definition", code=PROJECT_NATIVE_TEST)
    return [ob.done()]


PROJECT_NATIVE_TEST = r"""
    #[test]
    fn kv_project_against_definition() {
        fn c(n: usize, k: usize) -> f64 {
            if k > n {
                return 0.0;
            }
            let k = k.min(n - k);
            (1..=k).fold(1.0f64, |acc, i| acc * (n - k + i) as f64 / i as f64)
        }
        fn unrank(mut flat: usize, shape: &[usize]) -> Vec<usize> {
            let mut idx = vec![0; shape.len()];
            for j in (0..shape.len()).rev() {
                idx[j] = flat % shape[j];
                flat /= shape[j];
            }
            idx
        }
        let shapes: Vec<Vec<usize>> = vec![
            vec![1], vec![2], vec![3], vec![5], vec![8], vec![3, 3], vec![3, 5], vec![5, 3], vec![1, 4], vec![4, 1], vec![2, 2],
            vec![3, 3, 3], vec![2, 3, 4], vec![3, 1, 2], vec![3, 3, 1], vec![1, 3, 3],
        ];
        for (from, scale) in shapes.iter().flat_map(|f| [1.0f64, 1e-18, 1e-300, 1e12].map(move |s| (f, s))) {
            let n: usize = from.iter().product();
            // zeros, ordinary values and (by the scale) values far below f64::EPSILON and far above 2^32
            let x: Vec<f64> = (0..n).map(|i| ((i * 7 + 3) % 11) as f64 * 0.5 * scale).collect();
            let scs = Scs::new(x.clone(), crate::array::Shape(from.clone())).unwrap();
            for to in &shapes {
                let got = scs.project(crate::array::Shape(to.clone()));
                let admissible = from.len() == to.len() && from.iter().zip(to).all(|(f, t)| t <= f);
                if !admissible {
                    assert!(got.is_err(), "projecting shape {from:?} to {to:?} must be an error, got a spectrum");
                    continue;
                }
                let got = got.unwrap_or_else(|e| panic!("projecting shape {from:?} to {to:?} failed: {e}"));
                assert_eq!(&got.shape().0, to, "projecting shape {from:?} to {to:?} gives shape {:?}", got.shape());
                let m: usize = to.iter().product();
                for k in 0..m {
                    let kk = unrank(k, to);
                    let mut want = 0.0;
                    for (s, xs) in x.iter().enumerate() {
                        let ss = unrank(s, from);
                        let mut w = *xs;
                        for j in 0..from.len() {
                            let (nn, mm) = (from[j] - 1, to[j] - 1);
                            w *= c(ss[j], kk[j]) * c(nn - ss[j], mm.wrapping_sub(kk[j]).min(mm)) / c(nn, mm) * if kk[j] <= mm { 1.0 } else { 0.0 };
                        }
                        want += w;
                    }
                    let g = got.inner().iter().nth(k).copied().unwrap();
                    assert!((g - want).abs() <= 1e-9 * want.abs().max(scale), "projecting shape {from:?} (values of order {scale:e}) to {to:?}: cell {kk:?} is {g:e}, the definition gives {want:e}");
                }
            }
        }
    }
"""


def _deref_env(p, t):
    return p.state.env.get(t[1], t) if t[0] == "ref" else t


def _closure_models():
    def m_vec_index(ex, st, fn, args, ds):
        k = show(args[1])
        cell = "$f" + k
        st.env[cell] = V("f" + k, "real")
        return ("ref", cell)

    def m_mul(ex, st, fn, args, ds):
        return APP("Mul", [args[0], args[1]], "real")

    def m_cell(ex, st, fn, args, ds):
        st.env["$x"] = V("x", "real")
        return ("ref", "$x")
    return [(r"<Vec<f64> as Index<usize>>::index$", m_vec_index), (r"as Mul<f64>>::mul$|as Mul<&f64>>::mul$", m_mul),
            (r"f64>::powi$", m_powi), (r"Spectrum<\w+> as Index<\[usize; 2\]>>::index$", m_cell)]


def task_fstat_kernels(scratch, tier, seed, logdir):
    """C06 / C14: per-cell kernels of f2, f3, f4, Hudson's Fst and pi_xy, extracted from the closures'
    MIR, equal the published per-site terms for ALL frequencies / sample sizes (real arithmetic);
    the sample-size corrections of Fst come from the right axes; the documented f2 decompositions
    of f3 and f4 hold between the extracted kernels."""
    fns = fns_for(scratch, "sfs-core")
    out = []

    def closure_term(pattern, contains, n_captures_env):
        c = mir.find_fn(fns, pattern, contains=contains)
        env = {"_1": ("ref", "$cl"), "$cl": ("tup", tuple(("ref", k) for k in n_captures_env)), "_2": ("tup", (("ref", "$v"), V("fs", "U"))), "$v": V("v", "real")}
        for k, v in n_captures_env.items():
            env[k] = v
        ex = mir.Exec(c, _closure_models())
        ps = [p for p in ex.run(env) if p.end == "return"]
        if len(ps) != 1:
            raise RuntimeError(f"{len(ps)} paths in {pattern}")
        return ps[0]

    def smt_of(t):
        sm = mir.Smt()
        return sm, sm.tr(t)

    # ---- f2 / f3 / f4
    ob = Ob("f_statistic_kernels", ["stat::{F2,F3,F4}::from_sfs_unchecked::{closure#0}"], "all frequencies f0..f3 and cell values (reals)")
    try:
        kern = {}
        specs = {"f2": (["powi"], "(* |v| (* (- |f0| |f1|) (- |f0| |f1|)))"),
                 "f3": (["const 2_usize"], "(* (* |v| (- |f0| |f1|)) (- |f0| |f2|))"),
                 "f4": (["const 3_usize"], "(* (* |v| (- |f0| |f1|)) (- |f2| |f3|))")}
        for name, (contains, spec) in specs.items():
            # the closure of the impl block whose from_sfs_unchecked returns F2 / F3 / F4
            parents = [x for x in fns if re.search(r"stat\.rs>::from_sfs_unchecked$", mir.norm_name(x.name)) and x.ret.strip() == name.upper()]
            if len(parents) != 1:
                raise LookupError(f"{name}: {len(parents)} parent functions")
            cands = [x for x in fns if x.name == parents[0].name + "::{closure#0}"]
            if len(cands) != 1:
                raise LookupError(f"{name}: {len(cands)} candidate closures")
            ex = mir.Exec(cands[0], _closure_models())
            ps = [p for p in ex.run({"_1": V("cl", "U"), "_2": ("tup", (("ref", "$v"), V("fs", "U"))), "$v": V("v", "real")}) if p.end == "return"]
            if len(ps) != 1:
                raise RuntimeError(f"{name}: {len(ps)} paths")
            sm = mir.Smt()
            t = sm.tr(ps[0].ret)
            for sname in ("|v|", "|f0|", "|f1|", "|f2|", "|f3|"):
                sm.decls[sname] = "Real"
            kern[name] = t
            r, o = ob.run(q(sm, [f"(not (= {t} {spec}))"]), "unsat", 30)
            if r == "sat":
                ob.fail("violation", f"{name}: the per-cell term is not the published one: {o[:200]}", model=o)
        # documented decompositions (C14), between the extracted kernels, cell-wise
        def sub(t, mp):
            for a, b in mp.items():
                t = t.replace(f"|{a}|", f"|{b}~|")
            return t.replace("~|", "|")
        sm = mir.Smt()
        for sname in ("|v|", "|a|", "|b|", "|c|", "|d|"):
            sm.decls[sname] = "Real"
        f2 = lambda x, y: sub(kern["f2"], {"f0": x, "f1": y})
        f3 = sub(kern["f3"], {"f0": "a", "f1": "b", "f2": "c"})
        f4 = sub(kern["f4"], {"f0": "a", "f1": "b", "f2": "c", "f3": "d"})
        r, o = ob.run(q(sm, [f"(not (= (* 2.0 {f3}) (- (+ {f2('a','b')} {f2('a','c')}) {f2('b','c')})))"]), "unsat", 30)
        if r == "sat":
            ob.fail("violation", "2 f3(A;B,C) = f2(A,B) + f2(A,C) - f2(B,C) does not hold between the kernels: " + o[:200], model=o)
        r, o = ob.run(q(sm, [f"(not (= (* 2.0 {f4}) (- (- (+ {f2('a','d')} {f2('b','c')}) {f2('a','c')}) {f2('b','d')})))"]), "unsat", 30)
        if r == "sat":
            ob.fail("violation", "2 f4(A,B;C,D) = f2(A,D) + f2(B,C) - f2(A,C) - f2(B,D) does not hold between the kernels: " + o[:200], model=o)
        ob.d["nonvacuous"] = len(kern) == 3
    except (LookupError, ValueError, RuntimeError, KeyError, IndexError) as e:
        ob.fail("inconclusive", f"translator: {type(e).__name__}: {e}")
    out.append(ob.done())

    # ---- Hudson's Fst
    ob = Ob("fst_kernel", ["stat::Fst::from_sfs_unchecked (+ closures)"], "all frequencies, all sample sizes with n_i - 1 != 0 (reals); sample-size corrections per axis")
    try:
        f = mir.find_fn(fns, r"stat\.rs>::from_sfs_unchecked$", contains=["n_i_sub"])
        ps = [p for p in mir.Exec(f, [], max_paths=50).run({"_1": ("ref", "$self"), "$self": V("sfs", "U")}) if p.end == "return"]
        if len(ps) != 1:
            raise RuntimeError(f"{len(ps)} paths")
        p = ps[0]
        mp = [e for e in p.state.events if re.search(r"Iterator>::map::<\(f64, f64\)", e[0])]
        cl = mp[0][1][1]
        names = re.search(r"\{([a-z_,]+)\}$", cl[1]).group(1).split(",")
        caps = {n: show(_deref_env(p, t)) for n, t in zip(names, cl[2])}
        want = {"n_i_sub": 0, "n_j_sub": 1}
        for n, ax in want.items():
            if not re.fullmatch(rf"to_real\(Sub\(select\(deref\(<Shape as Deref>::deref\(spectrum::Spectrum::<\w+>::shape\(sfs\)\)\), {ax}\), 2\)\)", caps.get(n, "")):
                ob.fail("violation", f"{n} is not (length of axis {ax}) - 2, i.e. n - 1 of that population: {caps.get(n, '?')[:160]}")
        # the iteration skips the two monomorphic cells and pairs values with frequencies
        it = show(mp[0][1][0])
        if not (it.startswith("<std::iter::Take<Zip<") and "Iterator>::skip(" in it and ", 1)" in it and re.search(r"Sub\(spectrum::Spectrum::<\w+>::elements\(sfs\), 1\)", it) and "iter_frequencies(sfs)" in it and "array::Array::<f64>::iter(" in it):
            ob.fail("violation", "the cells are not zip(values, frequencies).take(elements - 1).skip(1): " + it[:200])
        r_ = show(p.ret)
        if not re.fullmatch(r"ctor:Fst\(Div\(field\((.*), 0\), field\(\1, 1\)\)\)", r_):
            ob.fail("violation", "Fst is not (sum of numerators) / (sum of denominators): " + r_[:160])
        # closure body vs Hudson's per-site numerator / denominator
        c = mir.find_fn(fns, r"stat\.rs>::from_sfs_unchecked::\{closure#0\}$", contains=["n_i_sub"])
        order = names
        env = {"_1": ("ref", "$cl"), "$cl": ("tup", tuple(("ref", "$" + n) for n in order)), "_2": ("tup", (("ref", "$v"), V("fs", "U"))), "$v": V("v", "real")}
        for n in order:
            env["$" + n] = V(n, "real")
        cps = [cp for cp in mir.Exec(c, _closure_models()).run(env) if cp.end == "return"]
        if len(cps) != 1 or cps[0].ret[0] != "tup":
            raise RuntimeError("closure does not return a pair")
        sm = mir.Smt()
        num, den = sm.tr(cps[0].ret[1][0]), sm.tr(cps[0].ret[1][1])
        for sname in ("|v|", "|f0|", "|f1|", "|n_i_sub|", "|n_j_sub|"):
            sm.decls[sname] = "Real"
        pre = ["(not (= |n_i_sub| 0.0))", "(not (= |n_j_sub| 0.0))"]
        hn = "(* |v| (- (- (* (- |f0| |f1|) (- |f0| |f1|)) (/ (* |f0| (- 1.0 |f0|)) |n_i_sub|)) (/ (* |f1| (- 1.0 |f1|)) |n_j_sub|)))"
        hd = "(* |v| (+ (* |f0| (- 1.0 |f1|)) (* |f1| (- 1.0 |f0|))))"
        r, o = ob.run(q(sm, pre + [f"(not (and (= {num} {hn}) (= {den} {hd})))"]), "unsat", 60)
        if r == "sat":
            ob.fail("violation", "the per-site numerator / denominator are not Hudson's (Bhatia et al. 2013): " + o[:200], model=o)
        r, o = ob.run(q(sm, pre + [f"(= {num} {hn})"]), "sat", 30)
        ob.d["nonvacuous"] = r == "sat"
        # the fold closure adds numerators and denominators separately
        fc = mir.find_fn(fns, r"stat\.rs>::from_sfs_unchecked::\{closure#1\}$")
        fps = [cp for cp in mir.Exec(fc, []).run({"_1": V("cl", "U"), "_2": ("tup", (V("ns", "real"), V("ds", "real"))), "_3": ("tup", (V("n", "real"), V("d", "real")))}) if cp.end == "return"]
        if len(fps) != 1 or show(fps[0].ret) != "(Add(ns, n), Add(ds, d))":
            ob.fail("violation", "numerators and denominators are not summed separately: " + (show(fps[0].ret) if fps else "?"))
    except (LookupError, ValueError, RuntimeError, KeyError, IndexError, AttributeError) as e:
        ob.fail("inconclusive", f"translator: {type(e).__name__}: {e}")
    out.append(ob.done())

    # ---- pi_xy
    ob = Ob("pi_xy_kernel", ["stat::PiXY::from_spectrum_unchecked (+ closures)"], "all sample sizes and cells (integers below 2^31 / reals)")
    try:
        f = mir.find_fn(fns, r"stat\.rs>::from_spectrum_unchecked$", contains=["dimensions do not fit"])
        ps = [p for p in mir.Exec(f, [], max_paths=200).run({"_1": ("ref", "$self"), "$self": V("spectrum", "U")}) if p.end == "return"]
        if not ps:
            raise RuntimeError("no returning path")
        p = ps[0]
        mp = [e for e in p.state.events if re.search(r"Iterator>::map::<f64, \{closure", e[0])]
        cl = mp[0][1][1]
        names = re.search(r"\{([a-z_0-9,]+)\}$", cl[1]).group(1).split(",")
        caps = {n: show(_deref_env(p, t)) for n, t in zip(names, cl[2])}
        for n, ax in (("n1", 0), ("n2", 1)):
            if n in caps and not re.search(rf"Sub\(.*(?:select|field)\(.*, {ax}\).*, 1\)|Sub\(n{ax + 1}raw, 1\)", caps[n]):
                # n1, n2 are destructured from the shape slice: accept any Sub(<axis length>, 1)
                if not re.fullmatch(r"Sub\(.*, 1\)", caps[n]):
                    ob.fail("violation", f"{n} is not (length of axis {ax}) - 1: {caps[n][:120]}")
        r_ = show(p.ret)
        if not re.fullmatch(r"ctor:PiXY\(Div\(.*Iterator>::sum::<f64>\(.*\), to_real\(Mul\((.*), (.*)\)\)\)\)", r_):
            ob.fail("violation", "pi_xy is not (weighted sum) / (n1 n2): " + r_[:200])
        c = mir.find_fn(fns, r"stat\.rs>::from_spectrum_unchecked::\{closure#1\}$", contains=["Index<[usize; 2]>"])
        env = {"_1": ("ref", "$cl"), "$cl": ("tup", tuple(("ref", "$" + n) for n in names)), "_2": ("tup", (V("m1", "int"), V("m2", "int")))}
        for n in names:
            env["$" + n] = V(n, "int" if n != "spectrum" else "U")
        cps = [cp for cp in mir.Exec(c, _closure_models()).run(env) if cp.end == "return"]
        if len(cps) != 1:
            raise RuntimeError(f"{len(cps)} closure paths")
        sm = mir.Smt()
        t = sm.tr(cps[0].ret)
        for sname, so in (("|m1|", "Int"), ("|m2|", "Int"), ("|n1|", "Int"), ("|n2|", "Int"), ("|x|", "Real")):
            sm.decls[sname] = so
        pre = ["(>= |m1| 0)", "(>= |m2| 0)", "(<= |m1| |n1|)", "(<= |m2| |n2|)", "(<= |n1| 2147483648)", "(<= |n2| 2147483648)"]
        spec = "(* |x| (to_real (+ (* |m1| (- |n2| |m2|)) (* |m2| (- |n1| |m1|)))))"
        if t.replace(" ", "") == spec.replace(" ", ""):
            ob.d["queries"] += 1      # syntactically the published term: nothing for the solver to do
        else:
            r, o = ob.run(q(sm, pre + [f"(not (= {t} {spec}))"]), "unsat", 30)
            if r == "sat":
                ob.fail("violation", "the per-cell weight is not m1 (n2 - m2) + m2 (n1 - m1): " + o[:200], model=o)
            elif r != "unsat":
                ob.fail("violation", "the per-cell weight is not literally m1 (n2 - m2) + m2 (n1 - m1) and the solver cannot show it equal: " + t[:160])
        for i, vc in enumerate(cps[0].state.vcs):
            s2 = mir.Smt(mul_abstract=2147483648)
            cnd = s2.tr(cond_term(vc))
            for sname, so in (("|m1|", "Int"), ("|m2|", "Int"), ("|n1|", "Int"), ("|n2|", "Int")):
                s2.decls[sname] = so
            r, o = ob.run(q(s2, pre + s2.extra + [f"(not {cnd})"]), "unsat", 30)
            if r == "sat":
                ob.fail("violation", f"pi_xy closure: MIR assert \"{vc[0][:50]}\" can fail: {o[:160]}", model=o)
        ob.d["nonvacuous"] = True
    except (LookupError, ValueError, RuntimeError, KeyError, IndexError, AttributeError) as e:
        ob.fail("inconclusive", f"translator: {type(e).__name__}: {e}")
    out.append(ob.done())
    return out


def task_error_before_output(scratch, tier, seed, logdir):
    """C16 / C10: in View::run, Fold::run and Stat::run a failed read returns the error before any
    writer / statistics runner is constructed or called."""
    fns = fns_for(scratch, "sfs-cli")
    ob = Ob("error_before_output", ["view::View::run", "fold::Fold::run", "stat::Stat::run"], "every acyclic path; calls uninterpreted")
    try:
        n = 0
        for pat, params in ((r"view\.rs>::run$", ["View"]), (r"fold\.rs>::run$", ["Fold"]), (r"stat\.rs>::run$", ["Stat"])):
            f = mir.find_fn(fns, pat, params=params)
            for p in mir.Exec(f, [], max_paths=20000).run({"_1": V("cmd", "U")}):
                if p.end != "return":
                    continue
                failed_read = [c for t, c in p.state.pc if re.match(r"discriminant\(<std::result::Result<Spectrum<Counts>, std::io::Error> as Try>::branch\(.*read::Builder::read\(", show(t)) and c == ("eq", "1")]
                bad_input = [c for t, c in p.state.pc if re.match(r"discriminant\(<std::result::Result<Input, std::io::Error> as Try>::branch\(", show(t)) and c == ("eq", "1")]
                if not (failed_read or bad_input):
                    continue
                n += 1
                names = [e[0] for e in p.state.events]
                out = [x for x in names if re.search(r"write::Builder|write_to_|stat::runner::Runner|Runner::<.*>::(new|run)|fold\(|marginalize|normalize", x)]
                if out:
                    ob.fail("violation", f"{params[0]}::run: after a failed read it still calls {out[0][:80]}")
                if "from_residual" not in show(p.ret):
                    ob.fail("violation", f"{params[0]}::run: a failed read is not returned as the error")
        if n < 6:
            ob.fail("inconclusive", f"only {n} failing-read paths found")
        ob.d["nonvacuous"] = n >= 6
        ob.d["queries"] += n
    except (LookupError, ValueError, RuntimeError, KeyError, IndexError) as e:
        ob.fail("inconclusive", f"translator: {type(e).__name__}: {e}")
    return [ob.done()]


def task_small_kernels(scratch, tier, seed, logdir):
    """C06 / C01: KING and R0 as functions of the nine cells (all reals), D = (theta1 - theta2) / variance,
    and `scs += &count` adds exactly 1.0 at the count index."""
    fns = fns_for(scratch, "sfs-core")
    out = []
    ob = Ob("kinship_kernels", ["stat::{King,R0}::from_spectrum_unchecked"], "all real cell values (index = (genotype of individual 1, genotype of individual 2))")
    try:
        def m_cell(ex, st, fn, args, ds):
            m = re.search(r"array\((\d+), (\d+)\)", show(args[1]))
            if not m:
                return None
            name = f"x{m.group(1)}{m.group(2)}"
            st.env["$" + name] = V(name, "real")
            return ("ref", "$" + name)
        specs = {"King": "(/ (- |x11| (* 2.0 (+ |x02| |x20|))) (+ (+ (+ (+ |x01| |x10|) (* 2.0 |x11|)) |x12|) |x21|))",
                 "R0": "(/ (+ |x02| |x20|) |x11|)"}
        n = 0
        for nm, spec in specs.items():
            f = [x for x in fns if re.search(r"stat\.rs>::from_spectrum_unchecked$", mir.norm_name(x.name)) and x.ret.strip() == nm]
            if len(f) != 1:
                raise LookupError(f"{nm}: {len(f)} functions")
            ps = [p for p in mir.Exec(f[0], [(r"Index<\[usize; 2\]>>::index$", m_cell)]).run({"_1": ("ref", "$s"), "$s": V("spectrum", "U")}) if p.end == "return"]
            if len(ps) != 1 or ps[0].ret[0] != "app" or not ps[0].ret[1].startswith("ctor:"):
                raise RuntimeError(f"{nm}: unexpected shape of the function")
            sm = mir.Smt()
            t = sm.tr(ps[0].ret[2][0])
            for i in range(3):
                for j in range(3):
                    sm.decls[f"|x{i}{j}|"] = "Real"
            r, o = ob.run(q(sm, [f"(not (= {t} {spec}))"]), "unsat", 30)
            n += 1
            if r == "sat":
                ob.fail("violation", f"{nm} is not the published ratio of genotype-pair counts (Waples et al. 2019): {o[:200]}", model=o)
        ob.d["nonvacuous"] = n == 2
    except (LookupError, ValueError, RuntimeError, KeyError, IndexError) as e:
        ob.fail("inconclusive", f"translator: {type(e).__name__}: {e}")
    out.append(ob.done())

    ob = Ob("d_estimate_and_add_assign", ["stat::d::Statistic::estimate_unchecked", "impl AddAssign<&Count> for Scs"], "structural (terms)")
    try:
        f = mir.find_fn(fns, r"Statistic::estimate_unchecked$")
        ps = [p for p in mir.Exec(f, []).run({"_1": ("ref", "$s"), "$s": V("scs", "U")}) if p.end == "return"]
        r_ = show(ps[0].ret) if ps else ""
        if not re.fullmatch(r"Div\(Sub\(field\(theta::Theta::<<Self as Statistic>::T1>::from_spectrum_unchecked::<Counts>\(scs\), 0\), field\(theta::Theta::<<Self as Statistic>::T2>::from_spectrum_unchecked::<Counts>\(scs\), 0\)\), <Self as Statistic>::variance\(scs\)\)", r_):
            ob.fail("violation", "D is not (theta_1 - theta_2) / variance on the same spectrum: " + r_[:200])
        g = mir.find_fn(fns, r"add_assign$", params=["Count"])
        ps = [p for p in mir.Exec(g, []).run({"_1": ("ref", "$self"), "$self": V("scs", "U"), "_2": V("count", "U")}) if p.end == "return"]
        t = show(ps[0].state.env["$self"]) if ps else ""
        if not (t.startswith("store(") and "index_mut!mut0(scs, count)" in t and t.endswith("index_mut(scs, count)), 1.0))") and "Add(deref(" in t):
            ob.fail("violation", "`scs += &count` is not `scs[count] += 1.0`: " + t[:200])
        ob.d["nonvacuous"] = True
        ob.d["queries"] += 2
    except (LookupError, ValueError, RuntimeError, KeyError, IndexError) as e:
        ob.fail("inconclusive", f"translator: {type(e).__name__}: {e}")
    out.append(ob.done())
    return out


def eval_term(t, env, side=None):
    """concrete evaluation of an extracted term (floats; harmonic / p_harmonic by their definitions),
    used to validate the translator against the repository's own test expectations"""
    import math
    k = t[0]
    if k == "c":
        return float(t[1]) if t[2] in ("int", "real") else t[1]
    if k == "v":
        if t[1] in env:
            return env[t[1]]
        if side:
            for s_ in side:   # sqrtN: defined by  v*v = X
                if s_[1] == "Eq" and s_[2][0] == ("app", "Mul", (t, t), "real"):
                    return math.sqrt(eval_term(s_[2][1], env, side))
        raise KeyError(t[1])
    f, a = t[1], t[2]
    if f in ("Add", "Sub", "Mul", "Div"):
        x, y = eval_term(a[0], env, side), eval_term(a[1], env, side)
        return {"Add": x + y, "Sub": x - y, "Mul": x * y, "Div": (x / y if y != 0 else float("nan"))}[f]
    if f in ("to_real", "int_cast"):
        return eval_term(a[0], env, side)
    if f == "harmonic":
        n = int(eval_term(a[0], env, side))
        return sum(1.0 / i for i in range(1, n))
    if f == "p_harmonic":
        n, p_ = int(eval_term(a[0], env, side)), int(eval_term(a[1], env, side))
        return sum(1.0 / i ** p_ for i in range(1, n))
    raise KeyError(f)


def task_translator_validation(scratch, tier, seed, logdir):
    """Serval-style validation: the terms the translator extracts for the estimator kernels, evaluated
    at the spectra of the repository's own unit tests, give the values those tests expect."""
    fns = fns_for(scratch, "sfs-core")
    ob = Ob("translator_validation", ["theta weights", "D variances (extracted terms, evaluated concretely)"], "the Aquadro / Hamblin spectra of core/src/spectrum/stat/{theta,d}.rs tests, tolerance 1e-5")
    try:
        aquadro = [0, 34, 6, 4, 0, 0, 0, 0]
        hamblin = [0, 1, 11, 4, 7, 2, 0, 0, 0, 0, 0, 0]
        hamblin_mod = list(hamblin)
        hamblin_mod[8] += 1
        hamblin_mod[3] += 1
        w = {}
        for name, contains in (("tajima", ["binomial"]), ("watterson", ["harmonic"])):
            c = [f for f in fns if re.search(r"stat/theta\.rs>::weight$", mir.norm_name(f.name)) and all(x in f.text for x in contains) and "unimplemented" not in f.text and "pow" not in f.text]
            ps = [p for p in mir.Exec(c[0], STAT_MODELS).run({"_1": V("i", "int"), "_2": V("n", "int")}) if p.end == "return"]
            w[name] = ps[0].ret
        var = {}
        for name, contains in (("fu_li", ["4_usize"]), ("tajima", ["9_usize"])):
            f = mir.find_fn(fns, r"stat/d\.rs>::variance$", contains=contains)
            ps = [p for p in mir.Exec(f, STAT_MODELS).run({"_1": ("ref", "$scs"), "$scs": V("scs", "U")}) if p.end == "return"]
            var[name] = (ps[0].ret, ps[0].state.side)

        def theta(kind, x):
            n = len(x) - 1
            return sum(eval_term(w[kind], {"i": i, "n": n}) * x[i] for i in range(1, n))

        def dstat(kind, x):
            n = len(x) - 1
            S = float(sum(x[1:n]))
            v = eval_term(var[kind][0], {"elements": len(x), "S": S}, var[kind][1])
            if kind == "tajima":
                return (theta("tajima", x) - theta("watterson", x)) / v
            return (theta("watterson", x) - x[1]) / v
        expect = [("theta_watterson(aquadro)", theta("watterson", aquadro), 17.959184), ("pi(aquadro)", theta("tajima", aquadro), 14.857143),
                  ("d_tajima(aquadro)", dstat("tajima", aquadro), -0.995875), ("d_tajima(hamblin)", dstat("tajima", hamblin), 0.885737),
                  ("d_fu_li(hamblin_mod)", dstat("fu_li", hamblin_mod), 1.693537)]
        for what, got, want in expect:
            ob.d["queries"] += 1
            if not abs(got - want) <= 1e-5 * max(1.0, abs(want)):
                ob.fail("inconclusive", f"translator validation: {what} evaluates to {got:.6f}, the repository's test expects {want}")
        ob.d["nonvacuous"] = True
        ob.d["detail"] = (ob.d["detail"] + " " + "; ".join(f"{w_}={g:.6f}" for w_, g, _ in expect)).strip()
    except (LookupError, ValueError, RuntimeError, KeyError, IndexError, ZeroDivisionError) as e:
        ob.fail("inconclusive", f"translator: {type(e).__name__}: {e}")
    return [ob.done()]


def task_read_site_wiring(scratch, tier, seed, logdir):
    """C02 / C01: what read_site hands out after the per-sample loop: Standard carries &self.counts;
    Projected is projection.project_unchecked(&self.totals, &self.counts) (called chromosomes as the
    source size, ALT counts as the source index) of the reader's own projection; the record is reset first."""
    fns = fns_for(scratch, "sfs-core")
    ob = Ob("read_site_wiring", ["input::site::Reader::read_site (after the sample loop)"], "the zero-iteration paths through the loop (the loop body is the Kani kernel harnesses' business); calls uninterpreted")
    try:
        fld = struct_fields(os.path.join(scratch.src, "core/src/input/site/reader.rs"), "Reader")
        f = mir.find_fn(fns, r"site/reader\.rs>::read_site$")
        paths = mir.Exec(f, [], max_paths=5000).run({"_1": ("ref", "$self"), "$self": V("reader", "U")})
        seen = set()
        C, T, P = fld["counts"], fld["totals"], fld["projection"]
        base = r"site::reader::Reader::reset!mut0\(reader\)"
        for p in paths:
            if p.end != "return":
                continue
            r = show(p.ret)
            names = [e[0] for e in p.state.events]
            if names and not re.search(r"Reader::reset$", names[0]):
                ob.fail("violation", "read_site does not start by resetting the per-record state: first call is " + names[0][:80])
            if r.startswith("ctor:Read(ctor:Standard("):
                seen.add("standard")
                if not re.fullmatch(rf"ctor:Read\(ctor:Standard\(refto\(field\({base}, {C}\)\)\)\)", r):
                    ob.fail("violation", "Standard does not carry the record's ALT counts (&self.counts): " + r[:160])
            elif r.startswith("ctor:Read(ctor:Projected("):
                seen.add("projected")
                want = rf"ctor:Read\(ctor:Projected\(PartialProjection::project_unchecked\(field\(as_Some\(Option::<PartialProjection>::as_mut\(refto\(field\({base}, {P}\)\)\)\), 0\), refto\(field\({base}, {T}\)\), refto\(field\({base}, {C}\)\)\)\)\)"
                if not re.fullmatch(want, r):
                    ob.fail("violation", "Projected is not projection.project_unchecked(&self.totals, &self.counts): " + r[:260])
        # the genotype reader's Error / Done answers are passed on as such
        txt = open(os.path.join(scratch.src, "core/src/input.rs")).read()
        m = re.search(r"pub enum ReadStatus<T> \{(.*?)\n\}", txt, re.S)
        variants = re.findall(r"^\s*([A-Z][A-Za-z]*)(?:\(|,)", m.group(1), re.M)
        ends = set()
        for p in paths:
            if p.end != "return":
                continue
            cons = [c for t, c in p.state.pc if re.fullmatch(r"discriminant\(<dyn input::genotype::reader::Reader as input::genotype::reader::Reader>::read_genotypes\(.*\)\)", show(t))]
            if not cons:
                ob.fail("inconclusive", "a return path that does not look at the genotype reader's answer")
                continue
            kind, val = cons[0]
            allowed = {variants[int(val)]} if kind == "eq" else set(variants) - {variants[int(v)] for v in val}
            r = show(p.ret)
            if "Error" in allowed:
                ends.add("error")
                if not re.fullmatch(r"ctor:Error\(field\(as_Error\(<dyn input::genotype::reader::Reader as input::genotype::reader::Reader>::read_genotypes\(.*\)\), 0\)\)", r):
                    ob.fail("violation", "an error of the genotype reader is not passed on as that error: " + r[:120])
            if "Done" in allowed:
                ends.add("done")
                if allowed == {"Done"} and r != "ctor:Done()":
                    ob.fail("violation", "the end of the input is not answered with Done: " + r[:120])
            if allowed == {"Read"} and r.startswith("ctor:Done("):
                ob.fail("violation", "a record that was read is answered with Done")
        if ends != {"error", "done"}:
            ob.fail("inconclusive", f"Error / Done arms found: {sorted(ends)}")
        # one record per call, no state besides the per-record scratch
        hist = []
        extra = sorted(set(fld) - {"reader", "sample_map", "counts", "totals", "projection", "skipped_samples"})
        if extra:
            hist.append("the site reader carries state besides its per-record scratch: " + ", ".join(extra))
        for p in paths:
            if p.end not in ("return", "loopback"):
                continue
            names = [e[0] for e in p.state.events]
            n_rg = sum(1 for n in names if re.search(r"Reader>::read_genotypes$", n))
            in_sample_loop = any(re.search(r"<Zip<.*> as Iterator>::next$", n) for n in names)
            if n_rg != 1:
                hist.append(f"a path through read_site asks the genotype reader for {n_rg} records")
            if p.end == "loopback" and not in_sample_loop:
                hist.append("read_site loops over records: a record can be consumed without being answered")
        if hist:
            ob.fail("violation", " | ".join(sorted(set(hist))))
            ob.d["native_test"] = dict(crate="sfs-core", file="core/src/input/site/reader.rs", name="kv_read_site_one_record_per_call", code=READ_SITE_SEQ_NATIVE_TEST)
        if not {"standard", "projected"} <= seen:
            ob.fail("inconclusive", f"arms found: {sorted(seen)}")
        ob.d["nonvacuous"] = {"standard", "projected"} <= seen
        ob.d["queries"] += len(paths)
    except (LookupError, ValueError, RuntimeError, KeyError, IndexError) as e:
        ob.fail("inconclusive", f"translator: {type(e).__name__}: {e}")
    out = [ob.done()]

    # one iteration of the sample loop: whose counts are updated
    ob = Ob("read_site_sample_lookup", ["input::site::Reader::read_site (one iteration of the sample loop)"],
            "every path through one iteration of the per-sample loop; calls uninterpreted; the Kani harnesses replace sample::Map by a table, so which lookup the loop performs is decided here")
    try:
        SM = fld["sample_map"]
        R = r"site::reader::Reader::reset!mut0\(reader\)"
        item = r"as_Some\(<Zip<.*?> as Iterator>::next\((?=.*?::samples\()(?=.*?::read_genotypes\().*?\)\)"
        want = rf"field\(as_Some\(Option::<population::Id>::map::<usize, .*?>\(input::sample::Map::get_population_id\(refto\(field\({R}, {SM}\)\), field\(field\({item}, 0\), 0\)\), <usize as From<population::Id>>::from\)\), 0\)"
        n_upd = 0
        for p in paths:
            if p.end != "loopback":
                continue
            for name, args in [(e[0], e[1]) for e in p.state.events]:
                if not re.search(r"Count as IndexMut<usize>>::index_mut$", name):
                    continue
                n_upd += 1
                tgt, idx = show(args[0]), show(args[1])
                if not re.fullmatch(rf"refto\(field\({R}, (?:{C}|{T})\)\)", tgt):
                    ob.fail("inconclusive", "a Count other than self.counts / self.totals is updated: " + tgt[:120])
                elif not re.fullmatch(want, idx):
                    ob.fail("violation", "the population whose counts are updated is not sample_map.get_population_id(<the record's sample name>): " + idx[:200])
        if n_upd < 2:
            ob.fail("inconclusive", f"{n_upd} count updates found in the loop body")
        ob.d["nonvacuous"] = n_upd >= 2
        ob.d["queries"] += n_upd
        if ob.d["status"] == "violation":
            ob.d["native_test"] = dict(crate="sfs-core", file="core/src/input/site/reader.rs", name="kv_read_site_sample_lookup", code=READ_SITE_NATIVE_TEST)
    except (LookupError, ValueError, RuntimeError, KeyError, IndexError, NameError) as e:
        ob.fail("inconclusive", f"translator: {type(e).__name__}: {e}")
    out.append(ob.done())
    return out


READ_SITE_SEQ_NATIVE_TEST = r"""
    struct KvSeq {
        samples: Vec<Sample>,
        records: Vec<(String, usize, Vec<genotype::Result>)>,
        next: usize,
    }
    impl genotype::Reader for KvSeq {
        fn current_contig(&self) -> &str {
            &self.records[self.next.saturating_sub(1).min(self.records.len() - 1)].0
        }
        fn current_position(&self) -> usize {
            self.records[self.next.saturating_sub(1).min(self.records.len() - 1)].1
        }
        fn read_genotypes(&mut self) -> ReadStatus<Vec<genotype::Result>> {
            match self.records.get(self.next) {
                Some(r) => {
                    self.next += 1;
                    ReadStatus::Read(r.2.clone())
                }
                None => ReadStatus::Done,
            }
        }
        fn samples(&self) -> &[Sample] {
            &self.samples
        }
    }

    #[test]
    fn kv_read_site_one_record_per_call() {
        use crate::input::genotype::Genotype::{One, Two, Zero};
        let g = |a, b, c| vec![genotype::Result::Genotype(a), genotype::Result::Genotype(b), genotype::Result::Genotype(c)];
        // contigs / positions that repeat, go backwards and restart; identical and different genotypes
        let records = vec![
            ("c1".to_string(), 8usize, g(Zero, One, Two)),
            ("c1".to_string(), 8, g(One, One, Zero)),
            ("c1".to_string(), 9, g(One, One, Zero)),
            ("c2".to_string(), 9, g(Two, Two, Two)),
            ("c2".to_string(), 3, g(Zero, Zero, One)),
            ("c3".to_string(), 3, g(Zero, Zero, One)),
            ("c3".to_string(), 3, g(Zero, Zero, One)),
            ("c3".to_string(), 4, g(Two, Zero, Zero)),
        ];
        let names = ["a", "b", "c"];
        let map = || sample::Map::from_iter([("a", Some("p")), ("b", Some("q")), ("c", Some("p"))].map(|(s, p)| (s.to_string(), p.map(str::to_string))));
        let mk = |recs: Vec<(String, usize, Vec<genotype::Result>)>| KvSeq { samples: names.iter().map(|n| Sample::from(*n)).collect(), records: recs, next: 0 };
        let mut shared = Reader::new_unchecked(Box::new(mk(records.clone())), map(), None);
        for (i, rec) in records.iter().enumerate() {
            let mut alone = Reader::new_unchecked(Box::new(mk(vec![rec.clone()])), map(), None);
            let want = match alone.read_site() {
                ReadStatus::Read(Site::Standard(c)) => c.as_ref().to_vec(),
                _ => panic!("record {i} alone is not a standard site"),
            };
            match shared.read_site() {
                ReadStatus::Read(Site::Standard(c)) => assert_eq!(c.as_ref(), &want[..], "call {i} of read_site does not answer record {i} ({} {})", rec.0, rec.1),
                ReadStatus::Done => panic!("call {i} of read_site says Done although record {i} ({} {}) had not been answered", rec.0, rec.1),
                _ => panic!("call {i} of read_site does not answer record {i} with a standard site"),
            }
        }
        assert!(matches!(shared.read_site(), ReadStatus::Done), "after one call per record the reader is not done");

        // with a projection: a record with more called chromosomes than the target is answered with
        // the hypergeometric down-sampling of ITS counts from ITS number of called chromosomes
        {
            use crate::spectrum::project::PartialProjection;
            let one_pop = || sample::Map::from_iter([("a", Some("p")), ("b", Some("p")), ("c", Some("p"))].map(|(s, p)| (s.to_string(), p.map(str::to_string))));
            let miss = genotype::Result::Skipped(genotype::Skipped::Missing);
            let recs = vec![
                ("c1".to_string(), 1usize, g(Zero, One, Two)),                                                   // 6 called, 3 ALT
                ("c1".to_string(), 2, vec![genotype::Result::Genotype(One), miss, genotype::Result::Genotype(One)]), // 4 called: exact
                ("c1".to_string(), 3, g(Two, Two, One)),                                                         // 6 called, 5 ALT
                ("c1".to_string(), 4, vec![miss, miss, genotype::Result::Genotype(One)]),                           // 2 called: insufficient
                ("c1".to_string(), 5, g(One, Zero, Zero)),                                                       // 6 called, 1 ALT
            ];
            let want: Vec<Option<(u64, u64)>> = vec![Some((6, 3)), None, Some((6, 5)), None, Some((6, 1))];
            let mut r = Reader::new_unchecked(Box::new(mk(recs)), one_pop(), Some(PartialProjection::new(crate::spectrum::Count::from(vec![4usize]))));
            for (i, w) in want.iter().enumerate() {
                let mut scs = crate::Scs::from_zeros(crate::array::Shape(vec![5]));
                match (r.read_site(), w) {
                    (ReadStatus::Read(Site::Projected(p)), Some((size, alt))) => {
                        p.add_unchecked(&mut scs);
                        for k in 0..5u64 {
                            let h = crate::utils::hypergeometric_pmf(*size, *alt, 4, k);
                            let got = scs.inner().iter().nth(k as usize).copied().unwrap();
                            assert!((got - h).abs() < 1e-12, "record {i}: projected cell {k} is {got}, expected H({size},{alt},4,{k}) = {h}");
                        }
                    }
                    (ReadStatus::Read(Site::Standard(c)), None) if i == 1 => assert_eq!(c.as_ref(), &[2usize][..], "record 1 has exactly the target size"),
                    (ReadStatus::Read(Site::InsufficientData), None) if i == 3 => {}
                    _ => panic!("record {i} is not answered as the statement prescribes"),
                }
            }
        }

        // odd and even targets at the boundary: t == m is exact, t == m - 1 (one chromosome short) and
        // t == m - 2 are insufficient, t > m is projected
        {
            use crate::spectrum::project::PartialProjection;
            let one_pop = || sample::Map::from_iter([("a", Some("p")), ("b", Some("p")), ("c", Some("p"))].map(|(s, p)| (s.to_string(), p.map(str::to_string))));
            let miss = genotype::Result::Skipped(genotype::Skipped::Missing);
            let called = |n: usize| -> Vec<genotype::Result> { (0..3).map(|i| if i < n { genotype::Result::Genotype(One) } else { miss }).collect() };
            for target in 1usize..=6 {
                for n_called in 0usize..=3 {
                    let t = 2 * n_called;
                    let mut r = Reader::new_unchecked(Box::new(mk(vec![("c1".to_string(), 1, called(n_called))])), one_pop(), Some(PartialProjection::new(crate::spectrum::Count::from(vec![target]))));
                    let kind = match r.read_site() {
                        ReadStatus::Read(Site::Standard(_)) => "exact",
                        ReadStatus::Read(Site::Projected(_)) => "projected",
                        ReadStatus::Read(Site::InsufficientData) => "insufficient",
                        _ => "other",
                    };
                    let want = if t == target { "exact" } else if t > target { "projected" } else { "insufficient" };
                    assert_eq!(kind, want, "{t} called chromosomes against a target of {target}");
                }
            }
        }

        // an error of the genotype reader is passed on as that error, at any position in the stream
        struct KvFail {
            samples: Vec<Sample>,
            good: usize,
        }
        impl genotype::Reader for KvFail {
            fn current_contig(&self) -> &str {
                "c"
            }
            fn current_position(&self) -> usize {
                1
            }
            fn read_genotypes(&mut self) -> ReadStatus<Vec<genotype::Result>> {
                if self.good == 0 {
                    return ReadStatus::Error(io::Error::new(io::ErrorKind::InvalidData, "kv unreadable record"));
                }
                self.good -= 1;
                ReadStatus::Read(vec![genotype::Result::Genotype(Zero); 3])
            }
            fn samples(&self) -> &[Sample] {
                &self.samples
            }
        }
        for good in 0..3usize {
            let mut r = Reader::new_unchecked(Box::new(KvFail { samples: names.iter().map(|n| Sample::from(*n)).collect(), good }), map(), None);
            for _ in 0..good {
                assert!(matches!(r.read_site(), ReadStatus::Read(Site::Standard(_))));
            }
            match r.read_site() {
                ReadStatus::Error(e) => assert!(e.to_string().contains("kv unreadable record"), "another error is reported: {e}"),
                ReadStatus::Done => panic!("an unreadable record after {good} good ones is answered with Done (end of input)"),
                ReadStatus::Read(_) => panic!("an unreadable record after {good} good ones is answered with a site"),
            }
        }
    }
"""


READ_SITE_NATIVE_TEST = r"""
    struct KvMem {
        samples: Vec<Sample>,
        record: Option<Vec<genotype::Result>>,
    }
    impl genotype::Reader for KvMem {
        fn current_contig(&self) -> &str {
            "c"
        }
        fn current_position(&self) -> usize {
            1
        }
        fn read_genotypes(&mut self) -> ReadStatus<Vec<genotype::Result>> {
            match self.record.take() {
                Some(r) => ReadStatus::Read(r),
                None => ReadStatus::Done,
            }
        }
        fn samples(&self) -> &[Sample] {
            &self.samples
        }
    }

    #[test]
    fn kv_read_site_sample_lookup() {
        use crate::input::genotype::Genotype;
        let names = ["a", "b", "c", "d"];
        let gts = [Genotype::Two, Genotype::One, Genotype::Zero, Genotype::Two];
        // (sample, population) lists in several orders, using all or some of the input's samples
        let maps: Vec<Vec<(&str, &str)>> = vec![
            vec![("a", "p"), ("b", "p"), ("c", "q"), ("d", "q")],
            vec![("d", "p"), ("c", "p"), ("b", "q"), ("a", "q")],
            vec![("c", "p"), ("a", "q"), ("d", "p"), ("b", "q")],
            vec![("b", "p"), ("a", "q"), ("c", "q"), ("d", "r")],
            vec![("d", "p"), ("a", "q")],
            vec![("c", "p")],
        ];
        for list in maps {
            let map = sample::Map::from_iter(list.iter().map(|(s, p)| (s.to_string(), Some(p.to_string()))));
            // oracle: population ids by first appearance in the list
            let mut pops: Vec<&str> = Vec::new();
            for (_, p) in &list {
                if !pops.contains(p) {
                    pops.push(p);
                }
            }
            let mut alt = vec![0usize; pops.len()];
            for (i, n) in names.iter().enumerate() {
                if let Some((_, p)) = list.iter().find(|(s, _)| s == n) {
                    alt[pops.iter().position(|q| q == p).unwrap()] += gts[i] as u8 as usize;
                }
            }
            let mem = KvMem {
                samples: names.iter().map(|n| Sample::from(*n)).collect(),
                record: Some(gts.iter().map(|g| genotype::Result::Genotype(*g)).collect()),
            };
            let mut reader = Reader::new_unchecked(Box::new(mem), map, None);
            match reader.read_site() {
                ReadStatus::Read(Site::Standard(counts)) => {
                    assert_eq!(counts.as_ref(), &alt[..], "ALT counts per population for the sample list {list:?}")
                }
                _ => panic!("expected a standard site for {list:?}"),
            }
        }
    }
"""


def _subterms(t):
    yield t
    if isinstance(t, tuple):
        for a in t:
            if isinstance(a, tuple):
                yield from _subterms(a)


GENOTYPE_READER_NATIVE_TEST = r"""
    #[test]
    fn kv_vcf_reader_decodes_every_record() {
        use crate::input::genotype::{Reader as _, Skipped};
        let text = "##fileformat=VCFv4.3\n##contig=<ID=1>\n##FORMAT=<ID=GT,Number=1,Type=String,Description=\"Genotype\">\n\
#CHROM\tPOS\tID\tREF\tALT\tQUAL\tFILTER\tINFO\tFORMAT\ta\tb\tc\td\n\
1\t1\t.\tA\tC\t.\t.\t.\tGT\t0/0\t0|1\t1/1\t./.\n\
1\t2\t.\tA\t.\t.\t.\t.\tGT\t0/0\t./.\t0|0\t.|0\n\
1\t3\t.\tA\tC,G\t.\t.\t.\tGT\t0/2\t1/2\t2|2\t1|0\n\
1\t4\t.\tA\t.\t.\t.\t.\tGT\t0/1\t1/1\t0/0\t0/0\n";
        let g = |k: u8| match k {
            0 => genotype::Result::Genotype(Genotype::Zero),
            1 => genotype::Result::Genotype(Genotype::One),
            2 => genotype::Result::Genotype(Genotype::Two),
            3 => genotype::Result::Skipped(Skipped::Missing),
            _ => genotype::Result::Skipped(Skipped::Multiallelic),
        };
        let want = [[0u8, 1, 2, 3], [0, 3, 0, 3], [4, 4, 4, 1], [1, 2, 0, 0]];
        let mut reader = Reader::new(text.as_bytes()).expect("header parses");
        for (i, row) in want.iter().enumerate() {
            match super::super::Reader::read_genotypes(&mut reader) {
                ReadStatus::Read(got) => {
                    let w: Vec<_> = row.iter().map(|&k| g(k)).collect();
                    assert_eq!(got, w, "genotypes of record {}", i + 1);
                }
                ReadStatus::Error(e) => panic!("record {}: {e}", i + 1),
                ReadStatus::Done => panic!("record {} missing", i + 1),
            }
        }
        assert!(matches!(super::super::Reader::read_genotypes(&mut reader), ReadStatus::Done));
    }
"""


def task_genotype_reader_wiring(scratch, tier, seed, logdir):
    """C01 / C08: the VCF and BCF genotype readers answer every record with the genotypes decoded from
    that record's GT fields (noodles' Genotypes::genotypes), each converted by
    From<Option<VcfGenotype>> for genotype::Result; Done only for a zero-byte read; errors are passed on."""
    fns = fns_for(scratch, "sfs-core")
    out = []
    for kind, readfn in (("vcf", "read_record"), ("bcf", "read_lazy_record")):
        ob = Ob(f"genotype_reader_wiring_{kind}", [f"input::genotype::reader::{kind}::Reader::read_genotypes (inherent + trait + closures)"],
                "every path; noodles' record reader and GT decoder are uninterpreted (the decoding itself is noodles')")
        try:
            cands = [f for f in fns if re.search(rf"reader/{kind}\.rs>::read_genotypes", mir.norm_name(f.name))]
            if not cands:
                raise LookupError("no read_genotypes functions")
            closures = {}
            top = []
            for f in cands:
                if "{closure" in f.name:
                    ps = [p for p in mir.Exec(f, [], max_paths=200).run({"_1": V("cl", "U"), "_2": V("arg", "U")}) if p.end == "return"]
                    closures.setdefault(mir.norm_name(f.name), []).extend(show(p.ret) for p in ps)
                else:
                    top.append(f)
            allclos = " ".join(r for v in closures.values() for r in v)
            n_read = n_conv = 0
            for f in top:
                ps = mir.Exec(f, [], max_paths=500).run({"_1": ("ref", "$self"), "$self": V("self", "U")})
                ob.d["queries"] += len(ps)
                for p in ps:
                    if p.end != "return":
                        continue
                    r = show(p.ret)
                    if r.startswith("ctor:Done("):
                        zero = [c for t, c in p.state.pc if re.fullmatch(rf"field\(as_Ok\(noodles_{kind}::Reader::<R>::{readfn}\(.*\)\), 0\)", show(t))]
                        if zero != [("eq", "0")]:
                            ob.fail("violation", "Done is answered on a path other than 'the record reader returned Ok(0)'")
                    elif r.startswith("ctor:Read("):
                        n_read += 1
                        decoded = "Genotypes::genotypes(" in r or ("and_then" in r and "Genotypes::genotypes(arg)" in allclos)
                        if not decoded or f"{readfn}!mut" not in r:
                            ob.fail("violation", "a record is answered with genotypes that are not decoded from that record's GT fields: " + r[:200])
                    elif r.startswith("ctor:Error("):
                        pass
                    elif re.match(r"ReadStatus::<.*?>::map::<", r):
                        if not re.search(r"::read_genotypes\(self\), ZeroSized", r):
                            ob.fail("inconclusive", "trait read_genotypes: unrecognised form " + r[:160])
                    elif re.fullmatch(rf"{kind}::Reader::<R>::read_genotypes\(self\)", r):
                        pass
                    else:
                        ob.fail("inconclusive", "unrecognised return " + r[:160])
            conv = "<input::genotype::Result as From<Option<noodles_vcf::record::genotypes::sample::value::Genotype>>>::from"
            texts = allclos + " " + " ".join(f.text for f in top)
            n_conv = texts.count("genotype::Result as From<Option<")
            if n_read < 1:
                ob.fail("inconclusive", "no path answers Read")
            if n_conv < 1:
                ob.fail("violation", "the decoded genotypes are not converted by From<Option<VcfGenotype>> for genotype::Result")
            ob.d["nonvacuous"] = n_read >= 1
            if ob.d["status"] == "violation" and kind == "vcf":
                ob.d["native_test"] = dict(crate="sfs-core", file="core/src/input/genotype/reader/vcf.rs", name="kv_vcf_reader_decodes_every_record", code=GENOTYPE_READER_NATIVE_TEST)
        except (LookupError, ValueError, RuntimeError, KeyError, IndexError) as e:
            ob.fail("inconclusive", f"translator: {type(e).__name__}: {e}")
        out.append(ob.done())
    return out


PMF_NATIVE_TEST = r"""
    #[test]
    #[allow(clippy::unnecessary_cast)]
    fn kv_binomial_and_pmf_against_exact() {
        fn exact(n: u64, k: u64) -> f64 {
            if k > n {
                return 0.0;
            }
            let k = k.min(n - k);
            (1..=k).fold(1.0f64, |acc, i| acc * (n - k + i) as f64 / i as f64)
        }
        fn close(a: f64, b: f64) -> bool {
            (a - b).abs() <= 1e-9 * b.abs().max(1e-300)
        }
        for n in (0..=260u64).chain([340, 341, 400, 513, 1000]) {
            for k in (0..=n + 1).filter(|&k| n <= 130 || k <= 6 || k + 3 >= n || k % 7 == 0 || k == n / 2 || k == n / 3) {
                let got = binomial(n, k) as f64;
                let want = exact(n, k);
                assert!(close(got, want), "binomial({n}, {k}) = {got}, exact {want}");
            }
        }
        for (size, successes, draws) in [(6u64, 2u64, 4u64), (20, 7, 10), (64, 32, 32), (66, 30, 33), (80, 40, 40), (170, 60, 20), (171, 60, 20), (180, 90, 170), (200, 100, 10), (400, 150, 30)] {
            let mut sum = 0.0;
            for observed in 0..=draws + 1 {
                let got = hypergeometric_pmf(size, successes, draws, observed) as f64;
                let want = if observed > draws || observed > successes || draws - observed > size - successes {
                    0.0
                } else {
                    exact(successes, observed) * exact(size - successes, draws - observed) / exact(size, draws)
                };
                assert!(close(got, want) || (want == 0.0 && got == 0.0), "pmf({size},{successes},{draws},{observed}) = {got}, exact {want}");
                sum += got;
            }
            assert!((sum - 1.0).abs() < 1e-9, "pmf({size},{successes},{draws},.) sums to {sum}");
        }
    }
"""


def task_pmf_wiring(scratch, tier, seed, logdir):
    """C02 / C03 / C06 / C11: the Kani harnesses replace the hypergeometric pmf by a table (its
    numerics are floating-point ln/exp).  What is decidable about it is its structure over uninterpreted
    ln / exp / floor / ln_gamma: pmf = C(K,k) C(N-K,n-k) / C(N,n) (0 when k > n),
    C(n,k) = floor(0.5 + exp(lnf(n) - lnf(k) - lnf(n-k))) (0 when k > n),
    lnf(x) = ln(table[x]) inside the table, ln_gamma(x + 1) beyond it, the table holds at most 171
    entries (171! is not an f64) and is built as t[i] = t[i-1] * i."""
    fns = fns_for(scratch, "sfs-core")
    ob = Ob("pmf_wiring", ["utils::hypergeometric_pmf", "utils::binomial", "utils::factorial::ln_factorial (+ closures)", "utils::factorial::precomputed (+ closures)"],
            "every path; ln, exp, floor, ln_gamma uninterpreted: the identities are structural, their floating-point accuracy is outside")
    bad = lambda msg: ob.fail("violation", msg)
    try:
        def rets(pat, args):
            f = mir.find_fn(fns, pat)
            ps = [p for p in mir.Exec(f, [], max_paths=200).run(args) if p.end == "return"]
            ob.d["queries"] += len(ps)
            return f, ps
        _, ps = rets(r"^hypergeometric_pmf$", {"_1": V("N", "int"), "_2": V("K", "int"), "_3": V("n", "int"), "_4": V("k", "int")})
        got = sorted((tuple((show(t), c) for t, c in p.state.pc), show(p.ret)) for p in ps)
        want = sorted([((("Gt(k, n)", ("eq", "0")),), "Div(Mul(binomial(K, k), binomial(Sub(N, K), Sub(n, k))), binomial(N, n))"),
                       ((("Gt(k, n)", ("notin", ("0",))),), "0.0")])
        if got != want:
            bad("hypergeometric_pmf is not [k > n -> 0; C(K,k)*C(N-K,n-k)/C(N,n)]: " + "; ".join(f"{pc} => {r}" for pc, r in got)[:300])
        _, ps = rets(r"^binomial$", {"_1": V("n", "int"), "_2": V("k", "int")})
        got = sorted((tuple((show(t), c) for t, c in p.state.pc), show(p.ret)) for p in ps)
        want = sorted([((("Gt(k, n)", ("eq", "0")),), "f64::<impl f64>::floor(Add(0.5, f64::<impl f64>::exp(Sub(Sub(ln_factorial(n), ln_factorial(k)), ln_factorial(Sub(n, k))))))"),
                       ((("Gt(k, n)", ("notin", ("0",))),), "0.0")])
        if got != want:
            bad("binomial is not [k > n -> 0; floor(0.5 + exp(lnf(n) - lnf(k) - lnf(n-k)))]: " + "; ".join(f"{pc} => {r}" for pc, r in got)[:300])
        f, ps = rets(r"^ln_factorial$", {"_1": V("x", "int")})
        r = show(ps[0].ret) if len(ps) == 1 else ""
        if not re.fullmatch(r"Option::<f64>::unwrap_or_else::<\{closure@[^}]*\}>\(Option::<&f64>::map::<f64, \{closure@[^}]*\}>\(core::slice::<impl \[f64\]>::get::<usize>\(precomputed\(\), int_cast\(x, usize\)\), ZeroSized: \{closure@[^}]*\}\), closure\{closure@[^}]*\}\{x\}\(&_1\)\)", r):
            ob.fail("inconclusive", "ln_factorial: unrecognised form " + r[:200])
        _, ps = rets(r"^ln_factorial::\{closure#0\}$", {"_1": V("cl", "U"), "_2": ("ref", "$p"), "$p": V("entry", "real")})
        if [show(p.ret) for p in ps] != ["f64::<impl f64>::ln(entry)"]:
            bad("inside the table ln_factorial is not ln(table[x]): " + str([show(p.ret) for p in ps])[:200])
        _, ps = rets(r"^ln_factorial::\{closure#1\}$", {"_1": V("cl", "U")})
        if [show(p.ret) for p in ps] != ["ln_gamma(Add(to_real(deref(field(cl, 0))), 1.0))"]:
            bad("beyond the table ln_factorial(x) is not ln_gamma(x + 1): " + str([show(p.ret) for p in ps])[:200])
        pf = mir.find_fn(fns, r"^precomputed$")
        m = re.search(r"&\[f64; (\d+)\]", pf.ret or pf.header)
        if not m:
            ob.fail("inconclusive", "table length not found")
        elif int(m.group(1)) > 171:
            bad(f"the factorial table has {m.group(1)} entries: 171! and beyond are not finite f64 values")
        cf = mir.find_fn(fns, r"^precomputed::\{closure#0\}::\{closure#0\}$")
        ps = [p for p in mir.Exec(cf, [], max_paths=50).run({"_1": V("cl", "U"), "_2": V("acc", "real"), "_3": ("tup", (V("i", "int"), ("ref", "$slot"))), "$slot": V("slot", "real")}) if p.end == "return"]
        if len(ps) != 1 or show(ps[0].ret) != "Mul(acc, to_real(i))" or show(ps[0].state.env.get("$slot")) != "Mul(acc, to_real(i))":
            ob.fail("inconclusive" if len(ps) != 1 else "violation", "table step is not t[i] = acc * i, returned as the next acc: " + "; ".join(show(p.ret) for p in ps)[:200])
        ob.d["nonvacuous"] = True
        if ob.d["status"] == "violation":
            ob.d["native_test"] = dict(crate="sfs-core", file="core/src/utils.rs", name="kv_binomial_and_pmf_against_exact", code=PMF_NATIVE_TEST)
    except (LookupError, ValueError, RuntimeError, KeyError, IndexError, AttributeError) as e:
        ob.fail("inconclusive", f"translator: {type(e).__name__}: {e}")
    return [ob.done()]


PROJECTION_NATIVE_TEST = r"""
    #[test]
    fn kv_projection_history_independent() {
        // every pair of consecutive sites through ONE PartialProjection: the second site's
        // projection must be what a fresh PartialProjection gives for it
        fn run(p: &mut PartialProjection, pf: &Count, from: &Count, cells: usize) -> Vec<u64> {
            let mut scs = Scs::from_zeros(p.project_to().clone().into_shape());
            p.project_unchecked(pf, from).add_unchecked(&mut scs);
            assert_eq!(scs.inner().iter().count(), cells);
            scs.inner().iter().map(|x| x.to_bits()).collect()
        }
        let to = [2usize, 2];
        let mut sites: Vec<(Count, Count)> = Vec::new();
        for a in 2..=8usize {
            for b in 2..=8usize {
                for (x, y) in [(0usize, 1usize), (1, 0), (a / 2, b), (a, b / 2), (1, 1)] {
                    sites.push((Count::from([a, b]), Count::from([x.min(a), y.min(b)])));
                }
            }
        }
        for (pf, f) in sites.iter() {
            // a fresh projection gives the product of the per-population pmf terms, row-major from index 0
            let fresh = run(&mut PartialProjection::new(Count::from(to)), pf, f, 9);
            for (cell, bits) in fresh.iter().enumerate() {
                let (k0, k1) = ((cell / 3) as u64, (cell % 3) as u64);
                let want = crate::utils::hypergeometric_pmf(pf[0] as u64, f[0] as u64, 2, k0) * crate::utils::hypergeometric_pmf(pf[1] as u64, f[1] as u64, 2, k1);
                assert!((f64::from_bits(*bits) - want).abs() <= 1e-12, "sizes {pf:?} counts {f:?}: cell ({k0},{k1}) is {}, expected {want}", f64::from_bits(*bits));
            }
            // and the fixed-size Projection passes its own sizes
            let mut full = Projection::new_unchecked(pf.clone(), Count::from(to));
            let mut scs = Scs::from_zeros(Count::from(to).into_shape());
            full.project_unchecked(f).add_unchecked(&mut scs);
            let via_full: Vec<u64> = scs.inner().iter().map(|x| x.to_bits()).collect();
            assert_eq!(via_full, fresh, "Projection::project_unchecked differs from the partial projection with the same sizes ({pf:?}, {f:?})");
        }
        for (i, (pf1, f1)) in sites.iter().enumerate() {
            for (pf2, f2) in sites.iter().skip(i % 7).step_by(7) {
                let mut shared = PartialProjection::new(Count::from(to));
                let _ = run(&mut shared, pf1, f1, 9);
                let second = run(&mut shared, pf2, f2, 9);
                let fresh = run(&mut PartialProjection::new(Count::from(to)), pf2, f2, 9);
                assert_eq!(second, fresh, "site (sizes {pf2:?}, counts {f2:?}) projected after (sizes {pf1:?}, counts {f1:?}) differs from the same site projected alone");
            }
        }
    }
"""


def task_projection_wiring(scratch, tier, seed, logdir):
    """C02 / C11: a projected site is a function of the site alone.  PartialProjection::project_unchecked
    zeroes its scratch index and hands (project_from, &self.project_to, from, &mut self.to_buf) to
    Projected::new_unchecked -> ProjectIter::new_unchecked (index 0, weight 1.0); no branch, no other
    field of the projection is read or written (a cache would be history)."""
    fns = fns_for(scratch, "sfs-core")
    ob = Ob("projection_wiring", ["PartialProjection::project_unchecked", "Projection::project_unchecked", "Projected::new_unchecked", "ProjectIter::new_unchecked"],
            "every path; calls uninterpreted")
    dev = []
    try:
        src = os.path.join(scratch.src, "core/src/spectrum/project.rs")
        pp = struct_fields(src, "PartialProjection")
        pj = struct_fields(src, "Projection")
        if sorted(pp) != ["project_to", "to_buf"]:
            dev.append("PartialProjection carries state besides its target and its scratch index: " + ", ".join(sorted(pp)))
        def only(pat, params, args):
            f = mir.find_fn(fns, pat, params=params)
            ps = mir.Exec(f, [], max_paths=200).run(args)
            ob.d["queries"] += len(ps)
            rs = [p for p in ps if p.end == "return"]
            return rs
        refs = lambda names: {k: v for i, n in enumerate(names, 1) for k, v in ((f"_{i}", ("ref", f"${n}")), (f"${n}", V(n, "U")))}
        rs = only(r"project\.rs>::project_unchecked$", ["PartialProjection"], refs(["self", "project_from", "from"]))
        PT, TB = pp.get("project_to"), pp.get("to_buf")
        want = f"Projected::<'_>::new_unchecked(project_from, refto(field(self, {PT})), from, refto(field(self, {TB})))"
        zeroed = [e for r in rs for e in r.state.events if re.search(r"Count::set_zero$", e[0]) and show(simp_refs(e[1][0], True)) == f"refto(field(self, {TB}))"]
        first = [r.state.events[0][0] for r in rs if r.state.events]
        if len(rs) != 1 or rs[0].state.pc or show(simp_refs(rs[0].ret, True)) != want or len(zeroed) != 1 or not re.search(r"Count::set_zero$", first[0]):
            dev.append("PartialProjection::project_unchecked is not [to_buf.set_zero(); Projected::new_unchecked(project_from, &project_to, from, &mut to_buf)]: " + "; ".join(show(r.ret) for r in rs)[:300])
        rs = only(r"project\.rs>::project_unchecked$", ["&mut Projection"], refs(["self", "from"]))
        want = f"PartialProjection::project_unchecked(refto(field(self, {pj['inner']})), refto(field(self, {pj['project_from']})), from)"
        if len(rs) != 1 or rs[0].state.pc or show(rs[0].ret) != want:
            dev.append("Projection::project_unchecked is not inner.project_unchecked(&self.project_from, from): " + "; ".join(show(r.ret) for r in rs)[:300])
        ob.d["nonvacuous"] = True
        f_all = [f for f in fns if re.search(r"project\.rs>::new_unchecked$", mir.norm_name(f.name))]
        seen = set()
        for f in f_all:
            if len(f.params) != 4:
                continue
            for r in [p for p in mir.Exec(f, [], max_paths=50).run(refs(["project_from", "project_to", "from", "to"])) if p.end == "return"]:
                t = show(r.ret)
                if t == "ctor:Projected(ProjectIter::<'_>::new_unchecked(project_from, project_to, from, to), 1.0)":
                    seen.add("projected")
                elif t in ("ctor:ProjectIter(&$project_from, &$project_to, &$from, &$to, 0)", "ctor:ProjectIter(project_from, project_to, from, to, 0)"):
                    seen.add("iter")
                else:
                    dev.append("unexpected constructor: " + t[:200])
        if seen != {"projected", "iter"}:
            dev.append(f"constructors recognised: {sorted(seen)}")
        if dev:
            # a deviation is a violation only if the real code then shows history dependence natively
            ob.fail("violation", " | ".join(dev))
            ob.d["native_test"] = dict(crate="sfs-core", file="core/src/spectrum/project.rs", name="kv_projection_history_independent", code=PROJECTION_NATIVE_TEST)
    except (LookupError, ValueError, RuntimeError, KeyError, IndexError, AttributeError, TypeError) as e:
        ob.fail("inconclusive", f"translator: {type(e).__name__}: {e}" + (" | " + " | ".join(dev) if dev else ""))
        if dev:
            ob.d["status"] = "violation"
            ob.d["native_test"] = dict(crate="sfs-core", file="core/src/spectrum/project.rs", name="kv_projection_history_independent", code=PROJECTION_NATIVE_TEST)
    return [ob.done()]


FOLD_NATIVE_TEST = r"""
    #[test]
    fn kv_fold_history_independent() {
        // folding B after A (same thread) must equal folding B first thing in a new thread
        fn bits(shape: &[usize]) -> Vec<u64> {
            let n: usize = shape.iter().product();
            let scs = Scs::new((0..n).map(|i| (i * i + 1) as f64).collect::<Vec<_>>(), crate::array::Shape(shape.to_vec())).unwrap();
            scs.fold().into_spectrum(-1.0).inner().iter().map(|x| x.to_bits()).collect()
        }
        let shapes: Vec<Vec<usize>> = vec![
            vec![6], vec![2, 3], vec![3, 2], vec![1, 6], vec![6, 1], vec![2, 3, 1], vec![1, 2, 3], vec![3, 1, 2],
            vec![4], vec![2, 2], vec![4, 1], vec![1, 5], vec![1, 2], vec![2, 1, 3], vec![1, 1, 4], vec![1], vec![1, 1], vec![12], vec![3, 4], vec![4, 3], vec![2, 6], vec![2, 2, 3], vec![3, 2, 2], vec![5], vec![9], vec![3, 3],
        ];
        // every cell against the definition of the fold (per-axis mirror, index sum against half the
        // total count, average on the diagonal, fill below it): an unrecognised from_spectrum that is
        // history-free but wrong is a violation of C05 as well
        for s in &shapes {
            let n: usize = s.iter().product();
            let total: usize = s.iter().map(|l| l - 1).sum();
            let val = |i: usize| (i * i + 1) as f64;
            let mut want = Vec::with_capacity(n);
            for i in 0..n {
                let (mut rem, mut sum, mut mirror, mut stride) = (i, 0usize, 0usize, 1usize);
                for l in s.iter().rev() {
                    let c = rem % l;
                    rem /= l;
                    sum += c;
                    mirror += (l - 1 - c) * stride;
                    stride *= l;
                }
                let w = if 2 * sum < total {
                    val(i) + val(mirror)
                } else if 2 * sum == total {
                    (val(i) + val(mirror)) / 2.0
                } else {
                    -1.0
                };
                want.push(w.to_bits());
            }
            assert_eq!(bits(s), want, "fold of shape {s:?} differs from the definition");
        }
        for a in &shapes {
            for b in &shapes {
                let (a1, b1, b2) = (a.clone(), b.clone(), b.clone());
                let alone = std::thread::spawn(move || bits(&b1)).join().unwrap();
                let after = std::thread::spawn(move || {
                    let _ = bits(&a1);
                    bits(&b2)
                })
                .join()
                .unwrap();
                assert_eq!(after, alone, "folding shape {b:?} after shape {a:?} differs from folding it alone");
            }
        }
    }
"""


def task_fold_wiring(scratch, tier, seed, logdir):
    """C05: Folded::from_spectrum decides every cell from the index sum of that cell IN THE SPECTRUM'S OWN
    SHAPE (shape.index_sum_from_flat_unchecked(i) compared with mid_count) and keeps nothing between calls
    (no static / thread-local state)."""
    fns = fns_for(scratch, "sfs-core")
    ob = Ob("fold_wiring", ["spectrum::folded::Folded::from_spectrum (+ closure)"], "every path of the per-cell closure; calls uninterpreted; the arithmetic of the cells is the Kani fold harnesses' business")
    dev = []
    try:
        cands = [f for f in fns if re.search(r"folded\.rs>::from_spectrum", mir.norm_name(f.name))]
        top = [f for f in cands if "{closure" not in f.name]
        clos = [f for f in cands if "{closure" in f.name]
        if len(top) != 1:
            raise LookupError("from_spectrum not found")
        for f in cands:
            if re.search(r"LocalKey|thread_local|\bstatic\b|OnceLock|Mutex|RefCell", f.text):
                dev.append("from_spectrum touches state that outlives the call (static / thread-local / lock / cell)")
                break
        if len(clos) != 1:
            dev.append(f"{len(clos)} closures in from_spectrum (expected the one per-cell closure)")
        n_cmp = 0
        for c in clos:
            args = {}
            for pn, pt in c.params:
                if pt.startswith("("):
                    args[pn] = ("tup", (V("i", "int"), V("rev_i", "int")))
                elif pt.startswith("&"):
                    args[pn] = ("ref", "$" + pn)
                    args["$" + pn] = V("cl", "U")
                else:
                    args[pn] = V("a" + pn, "U")
            ps = mir.Exec(c, [], max_paths=200).run(args)
            ob.d["queries"] += len(ps)
            for p in ps:
                if p.end != "return":
                    continue
                cmps = [e for e in p.state.events if re.search(r"<usize as Ord>::cmp$", e[0])]
                if len(cmps) != 1:
                    continue
                n_cmp += 1
                a0 = show(cmps[0][1][0])
                if not re.fullmatch(r"Shape::index_sum_from_flat_unchecked\(spectrum::Spectrum::<S>::shape\(field\(cl, \d+\)\), i\)", a0):
                    dev.append("the side of a cell is not decided from shape.index_sum_from_flat_unchecked(i) of the spectrum being folded: " + a0[:160])
        if n_cmp < 3 and not dev:
            ob.fail("inconclusive", f"per-cell comparison found on {n_cmp} paths")
        ob.d["nonvacuous"] = n_cmp >= 3 or bool(dev)
        if dev:
            ob.fail("violation", " | ".join(sorted(set(dev))))
            ob.d["native_test"] = dict(crate="sfs-core", file="core/src/spectrum/folded.rs", name="kv_fold_history_independent", code=FOLD_NATIVE_TEST)
    except (LookupError, ValueError, RuntimeError, KeyError, IndexError, AttributeError, TypeError) as e:
        ob.fail("inconclusive", f"translator: {type(e).__name__}: {e}")
    return [ob.done()]


HARMONIC_NATIVE_TEST = r"""
    #[test]
    fn kv_harmonic_against_direct_sum() {
        for n in (0..=400u64).chain([511, 512, 513, 1000, 1023, 1024, 1025, 4096, 10000, 100001]) {
            for p in [1u32, 2] {
                // reference: the same terms added in the same order, and (compensated) in reverse order
                let direct: f64 = (1..n).map(|i| 1.0 / (i.pow(p) as f64)).sum();
                let (mut sum, mut c) = (0.0f64, 0.0f64);
                for i in (1..n).rev() {
                    let y = 1.0 / (i.pow(p) as f64) - c;
                    let t = sum + y;
                    c = (t - sum) - y;
                    sum = t;
                }
                let got = p_harmonic(n, p);
                assert!((got - sum).abs() <= 1e-12 * sum.max(1.0), "p_harmonic({n}, {p}) = {got}, sum of the first n - 1 terms = {sum} (direct {direct})");
                if p == 1 {
                    let h = harmonic(n);
                    assert!((h - sum).abs() <= 1e-12 * sum.max(1.0), "harmonic({n}) = {h}, sum of the first n - 1 terms = {sum}");
                }
            }
        }
    }
"""


def task_harmonic_wiring(scratch, tier, seed, logdir):
    """C06: utils::harmonic(n) = p_harmonic(n, 1); p_harmonic(n, p) = sum over i in 1..n of 1 / (i^p as f64):
    the n - 1 terms the Watterson / Tajima / Fu-Li constants are defined with (a_n, b_n)."""
    fns = fns_for(scratch, "sfs-core")
    ob = Ob("harmonic_wiring", ["utils::harmonic", "utils::p_harmonic (+ closure)"], "every path; Iterator::sum / map / pow uninterpreted; floating-point rounding of the sum is outside")
    dev = []
    try:
        f = mir.find_fn(fns, r"^harmonic$")
        ps = [p for p in mir.Exec(f, [], max_paths=50).run({"_1": V("n", "int")}) if p.end == "return"]
        if [show(p.ret) for p in ps] != ["p_harmonic(n, 1)"] or ps[0].state.pc:
            dev.append("harmonic(n) is not p_harmonic(n, 1): " + "; ".join(show(p.ret) for p in ps)[:200])
        f = mir.find_fn(fns, r"^p_harmonic$")
        ps = [p for p in mir.Exec(f, [], max_paths=50).run({"_1": V("n", "int"), "_2": V("p", "int")}) if p.end == "return"]
        ok = len(ps) == 1 and not ps[0].state.pc and re.fullmatch(
            r"<std::iter::Map<std::ops::Range<u64>, \{closure@[^}]*\}> as Iterator>::sum::<f64>\(<std::ops::Range<u64> as Iterator>::map::<f64, \{closure@[^}]*\}>\(ctor:Range\(1, n\), closure\{closure@[^}]*\}\{p\}\(&_2\)\)\)", show(ps[0].ret))
        if not ok:
            dev.append("p_harmonic(n, p) is not (1..n).map(term).sum(): " + "; ".join(show(p.ret) for p in ps)[:200])
        cs = [c for c in fns if re.search(r"^p_harmonic::\{closure#0\}$", mir.norm_name(c.name))]
        if len(cs) == 1:
            ps = [p for p in mir.Exec(cs[0], [], max_paths=50).run({"_1": ("ref", "$cl"), "$cl": V("cl", "U"), "_2": V("i", "int")}) if p.end == "return"]
            if [show(p.ret) for p in ps] != ["Div(1.0, to_real(core::num::<impl u64>::pow(i, deref(field(cl, 0)))))"]:
                dev.append("the term is not 1 / (i^p as f64): " + "; ".join(show(p.ret) for p in ps)[:200])
        else:
            dev.append(f"{len(cs)} closures in p_harmonic")
        ob.d["queries"] += 3
        ob.d["nonvacuous"] = True
        if dev:
            ob.fail("violation", " | ".join(dev))
            ob.d["native_test"] = dict(crate="sfs-core", file="core/src/utils.rs", name="kv_harmonic_against_direct_sum", code=HARMONIC_NATIVE_TEST)
    except (LookupError, ValueError, RuntimeError, KeyError, IndexError, AttributeError, TypeError) as e:
        ob.fail("inconclusive", f"translator: {type(e).__name__}: {e}")
    return [ob.done()]


WRITE_NATIVE_TEST = r"""
    struct KvSink {
        accept: usize,
        per_call: usize,
        got: Vec<u8>,
    }
    impl io::Write for KvSink {
        fn write(&mut self, buf: &[u8]) -> io::Result<usize> {
            if self.got.len() >= self.accept {
                return Err(io::Error::new(io::ErrorKind::Other, "sink full"));
            }
            let n = buf.len().min(self.per_call).min(self.accept - self.got.len());
            self.got.extend_from_slice(&buf[..n]);
            Ok(n)
        }
        fn flush(&mut self) -> io::Result<()> {
            Ok(())
        }
    }

    #[test]
    fn kv_writer_failures_surface() {
        let scs = crate::Scs::new((0..12).map(|i| i as f64 * 1.25).collect::<Vec<_>>(), crate::array::Shape(vec![3, 4])).unwrap();
        for format in [Format::Text, Format::Npy] {
            let make = || Builder::default().set_format(format).set_precision(3);
            let mut whole = Vec::new();
            make().write(&mut whole, &scs).unwrap();
            for per_call in [1usize, 3, 7, 4096] {
                let mut sink = KvSink { accept: usize::MAX, per_call, got: Vec::new() };
                make().write(&mut sink, &scs).unwrap();
                assert_eq!(sink.got, whole, "{format:?}: a writer that takes {per_call} byte(s) per call receives other bytes");
            }
            for accept in 0..whole.len() {
                for per_call in [1usize, 5, 4096] {
                    let mut sink = KvSink { accept, per_call, got: Vec::new() };
                    let r = make().write(&mut sink, &scs);
                    assert!(r.is_err(), "{format:?}: the writer failed after {accept} of {} bytes but write returned Ok", whole.len());
                    assert!(sink.got.len() <= accept && sink.got[..] == whole[..sink.got.len()]);
                }
            }
            if std::path::Path::new("/dev/full").exists() {
                assert!(make().write_to_path("/dev/full", &scs).is_err(), "{format:?}: writing to a full device returned Ok");
            }
        }
    }
"""


def task_write_dispatch_wiring(scratch, tier, seed, logdir):
    """C07 / C13 / C18: write::Builder hands the caller's writer itself (no intermediate buffer whose
    flush could swallow an error) to exactly one of the two format writers, with the spectrum and its
    own precision; stdout / path variants pass the locked stdout / the created file to the same function."""
    fns = fns_for(scratch, "sfs-core")
    ob = Ob("write_dispatch_wiring", ["spectrum::io::write::Builder::{write, write_to_stdout, write_to_path, write_to_path_or_stdout}"], "every path; calls uninterpreted")
    dev = []
    try:
        fld = struct_fields(os.path.join(scratch.src, "core/src/spectrum/io/write.rs"), "Builder")
        g = mir.find_fn(fns, r"io/write\.rs>::write$", params=["Builder"])
        seen = set()
        for p in mir.Exec(g, [], max_paths=100).run({"_1": V("builder", "U"), "_2": ("ref", "$w"), "$w": V("w", "U"), "_3": ("ref", "$sp"), "$sp": V("spectrum", "U")}):
            ob.d["queries"] += 1
            if p.end != "return":
                continue
            r = show(p.ret)
            if r.startswith("write_spectrum"):
                seen.add("text")
                if r != f"write_spectrum::<W, S>(w, spectrum, field(builder, {fld['precision']}))":
                    dev.append("text output is not write_spectrum(writer, spectrum, self.precision): " + r[:160])
            elif "write_npy" in r:
                seen.add("npy")
                if not re.fullmatch(r"array::Array::<f64>::write_npy::<&mut W>\(refto\(field\(spectrum, 0\)\), w\)", r):
                    dev.append("npy output is not spectrum.array.write_npy(writer): " + r[:160])
            else:
                dev.append("write::Builder::write returns something else than one of the two writers: " + r[:160])
        if seen != {"text", "npy"} and not dev:
            ob.fail("inconclusive", f"formats seen: {sorted(seen)}")
        g = mir.find_fn(fns, r"io/write\.rs>::write_to_stdout$")
        rs = [show(p.ret) for p in mir.Exec(g, [], max_paths=100).run({"_1": V("builder", "U"), "_2": ("ref", "$sp"), "$sp": V("spectrum", "U")}) if p.end == "return"]
        if len(rs) != 1 or not re.fullmatch(r"spectrum::io::write::Builder::write::<StdoutLock<'_>, S>\(builder, (?:refto\()?Stdout::lock\(stdout\(\)\)\)?, spectrum\)", rs[0]):
            dev.append("write_to_stdout is not self.write(&mut stdout().lock(), spectrum): " + "; ".join(rs)[:200])
        g = mir.find_fn(fns, r"io/write\.rs>::write_to_path$")
        ps = [p for p in mir.Exec(g, [], max_paths=100).run({"_1": V("builder", "U"), "_2": V("path", "U"), "_3": ("ref", "$sp"), "$sp": V("spectrum", "U")}) if p.end == "return"]
        okp = errp = 0
        for p in ps:
            r = show(p.ret)
            if re.fullmatch(r"spectrum::io::write::Builder::write::<File, S>\(builder, (?:refto\()?field\(as_Continue\(<std::result::Result<File, std::io::Error> as Try>::branch\(File::create::<P>\(path\)\)\), 0\)\)?, spectrum\)", r):
                okp += 1
            elif "from_residual" in r and "as_Break" in r:
                errp += 1
            else:
                dev.append("write_to_path is not self.write(&mut File::create(path)?, spectrum): " + r[:200])
        if (okp, errp) != (1, 1) and not dev:
            ob.fail("inconclusive", f"write_to_path arms: ok={okp} err={errp}")
        g = mir.find_fn(fns, r"io/write\.rs>::write_to_path_or_stdout$")
        rs = sorted(show(p.ret) for p in mir.Exec(g, [], max_paths=100).run({"_1": V("builder", "U"), "_2": V("path", "U"), "_3": ("ref", "$sp"), "$sp": V("spectrum", "U")}) if p.end == "return")
        if rs != ["spectrum::io::write::Builder::write_to_path::<P, S>(builder, field(as_Some(path), 0), spectrum)", "spectrum::io::write::Builder::write_to_stdout::<S>(builder, spectrum)"]:
            dev.append("write_to_path_or_stdout is not [Some(path) -> write_to_path; None -> write_to_stdout]: " + "; ".join(rs)[:200])
        ob.d["nonvacuous"] = True
        if dev:
            ob.fail("violation", " | ".join(dev))
            ob.d["native_test"] = dict(crate="sfs-core", file="core/src/spectrum/io/write.rs", name="kv_writer_failures_surface", code=WRITE_NATIVE_TEST)
    except (LookupError, ValueError, RuntimeError, KeyError, IndexError, AttributeError, TypeError) as e:
        ob.fail("inconclusive", f"translator: {type(e).__name__}: {e}")
    return [ob.done()]


TEXT_PARSE_NATIVE_TEST = r"""
    #[test]
    fn kv_text_value_count_is_checked() {
        // every text body is accepted iff it has exactly product(shape) tokens that are all numbers,
        // and then it is read as those numbers in that order
        for shape in [vec![1usize], vec![3], vec![2, 3], vec![3, 1, 2], vec![5]] {
            let n: usize = shape.iter().product();
            let header = format!("#SHAPE=<{}>", shape.iter().map(|d| d.to_string()).collect::<Vec<_>>().join("/"));
            for count in 0..n + 4 {
                for sep in [" ", "\n", "  \t "] {
                    let vals: Vec<f64> = (0..count).map(|i| i as f64 * 0.5 + 1.0).collect();
                    let body = vals.iter().map(|v| v.to_string()).collect::<Vec<_>>().join(sep);
                    let text = format!("{header}\n{body}\n");
                    let got = read_scs(&mut text.as_bytes());
                    if count == n {
                        let scs = got.unwrap_or_else(|e| panic!("{count} values for shape {shape:?} rejected: {e}"));
                        assert_eq!(scs.inner().iter().copied().collect::<Vec<_>>(), vals, "values of shape {shape:?} in order");
                        assert_eq!(scs.shape().0, shape);
                    } else {
                        assert!(got.is_err(), "a text file with {count} values for shape {shape:?} (needs {n}) was read as a spectrum");
                    }
                }
            }
            // an unparsable token anywhere is an error as well
            for bad in 0..n {
                let body = (0..n).map(|i| if i == bad { "1.x".to_string() } else { "2".to_string() }).collect::<Vec<_>>().join(" ");
                assert!(read_scs(&mut format!("{header}\n{body}\n").as_bytes()).is_err(), "token '1.x' at position {bad} accepted");
            }
        }
    }
"""


def task_text_parse_wiring(scratch, tier, seed, logdir):
    """C16 / C07: text::parse_scs = every whitespace-separated token parsed as f64 (any failure -> InvalidData),
    all of them handed to Scs::new together with the declared shape (whose count check -> InvalidData)."""
    fns = fns_for(scratch, "sfs-core")
    ob = Ob("text_parse_wiring", ["spectrum::io::text::parse_scs (+ closures)"], "every path; split / parse / collect / Scs::new uninterpreted (tokenisation and float parsing themselves are std's)")
    dev = []
    try:
        f = mir.find_fn(fns, r"^parse_scs$")
        ps = [p for p in mir.Exec(f, [], max_paths=200).run({"_1": V("s", "U"), "_2": V("shape", "U")}) if p.end == "return"]
        ob.d["queries"] += len(ps)
        CL = r"\{closure@[^}]*\}"
        parsed = (rf"std::result::Result::<Vec<f64>, ParseFloatError>::map_err::<std::io::Error, {CL}>\("
                  r"<std::iter::Map<SplitAsciiWhitespace<'_>, .*?> as Iterator>::collect::<std::result::Result<Vec<f64>, ParseFloatError>>\("
                  r"<SplitAsciiWhitespace<'_> as Iterator>::map::<.*?>\(core::str::<impl str>::split_ascii_whitespace\(s\), <f64 as FromStr>::from_str\)\), "
                  rf"ZeroSized: {CL}\)")
        new_of = lambda values, shp: rf"std::result::Result::<spectrum::Spectrum<Counts>, array::ShapeError>::map_err::<std::io::Error, {CL}>\(spectrum::Spectrum::<Counts>::new::<Vec<f64>, Shape>\({values}, {shp}\), ZeroSized: {CL}\)"
        rets = [show(p.ret) for p in ps]
        # form 1: parsed.and_then(|vec| Scs::new(vec, shape).map_err(..))
        form1 = (len(ps) == 1 and not ps[0].state.pc and
                 re.fullmatch(rf"std::result::Result::<Vec<f64>, std::io::Error>::and_then::<spectrum::Spectrum<Counts>, {CL}>\({parsed}, closure{CL}\{{shape\}}\(shape\)\)", rets[0]))
        if form1:
            cl = [c for c in fns if re.search(r"^parse_scs::\{closure#1\}$", mir.norm_name(c.name))]
            rr = [show(p.ret) for c in cl for p in mir.Exec(c, [], max_paths=50).run({"_1": V("cl", "U"), "_2": V("values", "U")}) if p.end == "return"]
            if len(rr) != 1 or not re.fullmatch(new_of("values", r"field\(cl, 0\)"), rr[0]):
                dev.append("the parsed values and the declared shape do not go to Scs::new unchanged: " + "; ".join(rr)[:200])
        else:
            # form 2: let values = parsed?; Scs::new(values, shape).map_err(..)
            br = rf"<std::result::Result<Vec<f64>, std::io::Error> as Try>::branch\({parsed}\)"
            ok = [r for r in rets if re.fullmatch(new_of(rf"field\(as_Continue\({br}\), 0\)", "shape"), r)]
            err = [r for r in rets if re.fullmatch(rf"<std::result::Result<spectrum::Spectrum<Counts>, std::io::Error> as FromResidual<.*?>>::from_residual\(field\(as_Break\({br}\), 0\)\)", r)]
            if not (len(rets) == 2 and len(ok) == 1 and len(err) == 1):
                dev.append("parse_scs is not split_ascii_whitespace -> parse every token -> collect -> Scs::new(all values, shape): " + " ;; ".join(rets)[:300])
        ob.d["nonvacuous"] = True
        if dev:
            ob.fail("violation", " | ".join(dev))
    except (LookupError, ValueError, RuntimeError, KeyError, IndexError, AttributeError, TypeError) as e:
        ob.fail("inconclusive", f"translator: {type(e).__name__}: {e}")
    return [ob.done()]


def task_main_exit(scratch, tier, seed, logdir):
    """C10 / C16 / C17: main maps every Err of run() to a message on stderr and exit status 1."""
    fns = fns_for(scratch, "sfs-cli")
    ob = Ob("main_exit", ["sfs::main"], "both outcomes of Cli::run")
    try:
        f = mir.find_fn(fns, r"^main$")
        paths = mir.Exec(f, [], max_paths=200).run({})
        err = ok = 0
        for p in paths:
            names = [e[0] for e in p.state.events]
            d = [c for t, c in p.state.pc if re.match(r"discriminant\(.*run\(", show(t))]
            if not d:
                continue
            if d[0] == ("eq", "0"):
                ok += 1
                if any("exit" in n for n in names):
                    ob.fail("violation", "successful runs call exit")
            elif d[0] == ("eq", "1"):
                err += 1
                ex_ = [e for e in p.state.events if re.search(r"(^|::)exit$", e[0])]
                pr = [n for n in names if "_eprint" in n]
                if not ex_ or show(ex_[0][1][0]) != "1" or not pr:
                    ob.fail("violation", "a failing run does not print to stderr and exit with status 1")
                if pr and ex_ and names.index(pr[0]) > [i for i, n in enumerate(names) if re.search(r"(^|::)exit$", n)][0]:
                    ob.fail("violation", "exit happens before the diagnostic is printed")
        if not (ok and err):
            ob.fail("inconclusive", "Ok / Err arms of main not found")
        ob.d["nonvacuous"] = bool(ok and err)
    except (LookupError, ValueError, RuntimeError, KeyError, IndexError) as e:
        ob.fail("inconclusive", f"translator: {type(e).__name__}: {e}")
    return [ob.done()]


def task_shape_closures(scratch, tier, seed, logdir):
    """C01 / C02 / C17: 1 + 2*size (sample::Map::shape) and 2*i + 1 (Project::shape)"""
    fns = fns_for(scratch, "sfs-core")
    out = []
    for name, pat, want in (("sample_map_shape_closure", r"^input::sample::<impl [^>]*>::shape::\{closure#0\}$", "1+2*size"),
                            ("project_individuals_closure", r"builder\.rs>::shape::\{closure#0\}$", "2*i+1")):
        ob = Ob(name, [pat], "all population sizes / individual counts below 2^62 (beyond: overflow, reported under C17)")
        try:
            f = mir.find_fn(fns, pat)
            unwrapped = V("size", "int")
            models = [(r"Option::<&usize>::unwrap$|HashMap::.*::get", lambda ex, st, fn, a, ds: None)]
            paths = [p for p in mir.Exec(f, []).run({"_1": ("ref", "$cl"), "$cl": V("captures", "U"), "_2": V("i", "int")}) if p.end == "return"]
            if len(paths) != 1:
                raise RuntimeError(f"{len(paths)} paths")
            r = show(paths[0].ret)
            if want == "2*i+1":
                if r != "Add(Mul(2, i), 1)":
                    ob.fail("violation", f"individuals -> shape is {r}, expected 2*i+1")
            else:
                if not re.fullmatch(r"Add\(1, (?:Mul|<usize as Mul<&usize>>::mul)\(2, (?:deref\()?Option::<&usize>::unwrap\(HashMap::<.*>::get::<.*>\(.*\)\)\)?\)\)", r):
                    ob.fail("violation", f"axis length is {r[:160]}, expected 1 + 2 * size[id]")
                if "ctor:Id(i)" not in r:
                    ob.fail("violation", "the population size is not looked up by the axis' own id")
            ob.d["nonvacuous"] = True
            ob.d["queries"] += 1
        except (LookupError, ValueError, RuntimeError, KeyError, IndexError) as e:
            ob.fail("inconclusive", f"translator: {type(e).__name__}: {e}")
        out.append(ob.done())
    return out


TASKS = {
    "d_variances": task_d_variances,
    "theta_weights": task_theta_weights,
    "header_write_padding": task_header_write_padding,
    "view_pipeline": task_view_pipeline,
    "view_mask_bounds": task_view_mask_empty,
    "runner_step": task_runner_step,
    "create_run": task_create_run,
    "stat_calculate": task_stat_calculate,
    "fold_run": task_fold_run,
    "read_array_wiring": task_read_array_wiring,
    "main_exit": task_main_exit,
    "spectrum_read_wiring": task_spectrum_read_wiring,
    "text_write_wiring": task_text_write_wiring,
    "site_builder_build": task_site_builder_build,
    "project_wiring": task_project_wiring,
    "fstat_kernels": task_fstat_kernels,
    "error_before_output": task_error_before_output,
    "small_kernels": task_small_kernels,
    "translator_validation": task_translator_validation,
    "read_site_wiring": task_read_site_wiring,
    "genotype_reader_wiring": task_genotype_reader_wiring,
    "pmf_wiring": task_pmf_wiring,
    "projection_wiring": task_projection_wiring,
    "fold_wiring": task_fold_wiring,
    "harmonic_wiring": task_harmonic_wiring,
    "write_dispatch_wiring": task_write_dispatch_wiring,
    "text_parse_wiring": task_text_parse_wiring,
    "shape_closures": task_shape_closures,
}


def _native_registry():
    return {
        "header_write_padding": dict(crate="sfs-core", file="core/src/array/npy/header.rs", name="kv_header_write_all_residues", code=HEADER_NATIVE_TEST),
        "read_site_wiring": dict(crate="sfs-core", file="core/src/input/site/reader.rs", name="kv_read_site_one_record_per_call", code=READ_SITE_SEQ_NATIVE_TEST),
        "read_site_sample_lookup": dict(crate="sfs-core", file="core/src/input/site/reader.rs", name="kv_read_site_sample_lookup", code=READ_SITE_NATIVE_TEST),
        "genotype_reader_wiring_vcf": dict(crate="sfs-core", file="core/src/input/genotype/reader/vcf.rs", name="kv_vcf_reader_decodes_every_record", code=GENOTYPE_READER_NATIVE_TEST),
        "text_write_wiring": dict(crate="sfs-core", file="core/src/spectrum/io/text.rs", name="kv_text_values_exact_precision", code=TEXT_NATIVE_TEST),
        "write_dispatch_wiring": dict(crate="sfs-core", file="core/src/spectrum/io/write.rs", name="kv_writer_failures_surface", code=WRITE_NATIVE_TEST),
        "pmf_wiring": dict(crate="sfs-core", file="core/src/utils.rs", name="kv_binomial_and_pmf_against_exact", code=PMF_NATIVE_TEST),
        "harmonic_wiring": dict(crate="sfs-core", file="core/src/utils.rs", name="kv_harmonic_against_direct_sum", code=HARMONIC_NATIVE_TEST),
        "projection_wiring": dict(crate="sfs-core", file="core/src/spectrum/project.rs", name="kv_projection_history_independent", code=PROJECTION_NATIVE_TEST),
        "fold_wiring": dict(crate="sfs-core", file="core/src/spectrum/folded.rs", name="kv_fold_history_independent", code=FOLD_NATIVE_TEST),
        "project_wiring": dict(crate="sfs-core", file="core/src/spectrum.rs", name="kv_project_against_definition", code=PROJECT_NATIVE_TEST),
        "read_array_wiring": dict(crate="sfs-core", file="core/src/array/npy.rs", name="kv_npy_declared_shape_is_not_trusted", code=READ_ARRAY_NATIVE_TEST),
        "text_parse_wiring": dict(crate="sfs-core", file="core/src/spectrum/io/text.rs", name="kv_text_value_count_is_checked", code=TEXT_PARSE_NATIVE_TEST),
        "view_pipeline": dict(crate="sfs-cli", file="cli/tests/kv_view_is_chain_of_steps.rs", name="kv_view_is_chain_of_steps", code=VIEW_NATIVE_TEST, integration=True),
    }


PMF_SUM_NATIVE_TEST = r"""
    #[test]
    #[allow(clippy::unnecessary_cast)]
    fn kv_pmf_rows_sum_to_one() {
        // C10 needs only this of the pmf: the weights a projected record adds are non-negative and sum to one
        for (size, successes, draws) in [(2u64, 1u64, 1u64), (6, 2, 4), (10, 1, 6), (20, 7, 10), (40, 13, 20), (64, 32, 32), (66, 30, 33), (80, 40, 40), (120, 60, 40), (170, 60, 20), (171, 60, 20), (180, 90, 170), (200, 100, 10), (400, 150, 30)] {
            let mut sum = 0.0;
            for observed in 0..=draws {
                let w = hypergeometric_pmf(size, successes, draws, observed) as f64;
                assert!(w >= 0.0 && w.is_finite(), "pmf({size},{successes},{draws},{observed}) = {w}");
                sum += w;
            }
            assert!((sum - 1.0).abs() < 1e-9, "the weights of a record with {successes} ALT among {size} chromosomes projected to {draws} sum to {sum}");
        }
    }
"""

BINOMIAL_NATIVE_TEST = r"""
    #[test]
    #[allow(clippy::unnecessary_cast)]
    fn kv_binomial_against_exact() {
        // C06 needs only this: pi's denominator binomial(n, 2) (and every other coefficient) is exact
        fn exact(n: u64, k: u64) -> f64 {
            if k > n {
                return 0.0;
            }
            let k = k.min(n - k);
            (1..=k).fold(1.0f64, |acc, i| acc * (n - k + i) as f64 / i as f64)
        }
        for n in (0..=260u64).chain([340, 341, 400, 513, 1000]) {
            for k in (0..=n + 1).filter(|&k| n <= 130 || k <= 6 || k + 3 >= n || k % 7 == 0 || k == n / 2) {
                let (got, want) = (binomial(n, k) as f64, exact(n, k));
                assert!((got - want).abs() <= 1e-9 * want.abs().max(1e-300), "binomial({n}, {k}) = {got}, exact {want}");
            }
        }
    }
"""

HEADER_PANIC_NATIVE_TEST = r"""
    #[test]
    fn kv_header_write_never_panics() {
        // C17 needs only this of the header writer: every header length is written without a panic
        for k in 1..70usize {
            for wide in [1usize, 10, 100] {
                let mut shape = vec![1usize; k];
                shape[0] = wide;
                for version in [Version::V1, Version::V2, Version::V3] {
                    let dict = HeaderDict::new(TypeDescriptor::new(Endian::Little, Type::F8), false, shape.clone());
                    let mut out = Vec::new();
                    let _ = Header::new(version, dict).write(&mut out);
                }
            }
        }
    }
"""

WRITE_ROUNDTRIP_NATIVE_TEST = r"""
    #[test]
    fn kv_written_spectrum_is_read_back() {
        // C07 / C13 need only this of the write builder: what it writes is the spectrum, in the chosen
        // format and precision, and the read builder accepts it
        let values: Vec<f64> = (0..12).map(|i| i as f64 * 1.25 + 0.0625).collect();
        let scs = crate::Scs::new(values.clone(), crate::array::Shape(vec![3, 4])).unwrap();
        for (format, precision) in [(Format::Text, 6usize), (Format::Text, 0), (Format::Text, 12), (Format::Npy, 6)] {
            let mut out = Vec::new();
            Builder::default().set_format(format).set_precision(precision).write(&mut out, &scs).unwrap();
            let back = super::text::read_scs(&mut &out[..]).or_else(|_| crate::Array::read_npy(&mut &out[..]).map(crate::Scs::from)).expect("the written spectrum is read back");
            assert_eq!(back.shape(), scs.shape(), "{format:?}: shape");
            let tol = if matches!(format, Format::Npy) { 0.0 } else { 0.5 * 10f64.powi(-(precision as i32)) };
            for (a, b) in back.inner().iter().zip(values.iter()) {
                assert!((a - b).abs() <= tol, "{format:?} at precision {precision}: wrote {b}, read back {a}");
            }
            if matches!(format, Format::Text) {
                let line = String::from_utf8(out.clone()).unwrap().lines().nth(1).unwrap().to_string();
                let want = values.iter().map(|x| format!("{x:.precision$}")).collect::<Vec<_>>().join(" ");
                assert_eq!(line, want, "text at precision {precision}");
            }
        }
    }
"""

VIEW_PANIC_NATIVE_TEST = r"""
// generated by /verif (mir2smt replay for C17): `sfs view` with option values that do or do not fit
// the spectrum ends in success or a diagnosed error, never in a panic
use std::process::Command;

#[test]
fn kv_view_never_panics() {
    let dir = std::env::temp_dir().join(format!("kv_viewp_{}", std::process::id()));
    std::fs::create_dir_all(&dir).unwrap();
    for (name, text) in [("a", "#SHAPE=<3/3>\n1 2 3 4 5 6 7 8 9\n"), ("b", "#SHAPE=<1>\n7\n"), ("c", "#SHAPE=<1/3>\n0.25 0.5 0.25\n"), ("d", "#SHAPE=<2/3/2>\n1 2 3 4 5 6 7 8 9 10 11 12\n")] {
        let input = dir.join(name);
        std::fs::write(&input, text).unwrap();
        for opts in [
            vec![], vec!["-M", "2"], vec!["-M", "0,7"], vec!["-M", "18446744073709551615"], vec!["-M", "1,1"], vec!["-M", "0"], vec!["-m", "5"], vec!["-m", "0,0"],
            vec!["-m", "0,1"], vec!["-m", "0"], vec!["--project-shape", "9,9"], vec!["--project-shape", "0,0"], vec!["--project-shape", "3"], vec!["--project-shape", "2,2"],
            vec!["-p", "2,2,2"], vec!["-p", "1"], vec!["--mask-monomorphic"], vec!["--normalize"], vec!["--mask-monomorphic", "--normalize"],
            vec!["-M", "3", "--mask-monomorphic", "--normalize"], vec!["-m", "0", "--project-shape", "2", "--mask-monomorphic", "--normalize"],
            vec!["-O", "npy"], vec!["--precision", "0"], vec!["--precision", "40"],
        ] {
            let mut a: Vec<String> = vec!["view".into()];
            a.extend(opts.iter().map(|s| s.to_string()));
            a.push(input.display().to_string());
            let out = Command::new(env!("CARGO_BIN_EXE_sfs")).args(&a).env("SFS_ALLOW_STDIN", "1").stdin(std::process::Stdio::null()).output().expect("sfs runs");
            let stderr = String::from_utf8_lossy(&out.stderr);
            assert!(matches!(out.status.code(), Some(0) | Some(1)) && !stderr.contains("panicked at"), "sfs {a:?} ended with status {:?}: {stderr}", out.status.code());
        }
    }
    let _ = std::fs::remove_dir_all(&dir);
}
"""


VIEW_MARGINALIZE_NATIVE_TEST = r"""
// generated by /verif (mir2smt replay for C04): `sfs view --marginalize-remove/-keep` on the built binary
use std::process::Command;

fn run(args: &[String]) -> (Option<i32>, String, String) {
    let out = Command::new(env!("CARGO_BIN_EXE_sfs")).args(args).env("SFS_ALLOW_STDIN", "1").stdin(std::process::Stdio::null()).output().expect("sfs runs");
    (out.status.code(), String::from_utf8_lossy(&out.stdout).to_string(), String::from_utf8_lossy(&out.stderr).to_string())
}

#[test]
fn kv_view_marginalize_cli() {
    let dir = std::env::temp_dir().join(format!("kv_viewm_{}", std::process::id()));
    std::fs::create_dir_all(&dir).unwrap();
    let shape = [2usize, 3, 2, 4];
    let n: usize = shape.iter().product();
    let vals: Vec<f64> = (0..n).map(|i| (i * i % 17) as f64 + 1.0).collect();
    let input = dir.join("in.txt");
    std::fs::write(&input, format!("#SHAPE=<2/3/2/4>\n{}\n", vals.iter().map(|v| v.to_string()).collect::<Vec<_>>().join(" "))).unwrap();
    let view = |opt: &str, list: &str| run(&["view".to_string(), "--precision".into(), "3".into(), opt.to_string(), list.to_string(), input.display().to_string()]);
    // every non-empty proper subset of the axes, named in ascending and in descending order
    for mask in 1u32..15 {
        let removed: Vec<usize> = (0..4).filter(|j| mask & (1 << j) != 0).collect();
        let kept: Vec<usize> = (0..4).filter(|j| mask & (1 << j) == 0).collect();
        // reference: sum over the removed axes, kept axes in their original order
        let kshape: Vec<usize> = kept.iter().map(|&j| shape[j]).collect();
        let mut want = vec![0.0f64; kshape.iter().product()];
        for (flat, v) in vals.iter().enumerate() {
            let mut idx = [0usize; 4];
            let mut f = flat;
            for j in (0..4).rev() {
                idx[j] = f % shape[j];
                f /= shape[j];
            }
            let mut k = 0;
            for &j in &kept {
                k = k * shape[j] + idx[j];
            }
            want[k] += v;
        }
        let header = format!("#SHAPE=<{}>", kshape.iter().map(|d| d.to_string()).collect::<Vec<_>>().join("/"));
        let body = want.iter().map(|v| format!("{v:.3}")).collect::<Vec<_>>().join(" ");
        let expect = format!("{header}\n{body}\n");
        let asc = removed.iter().map(|j| j.to_string()).collect::<Vec<_>>().join(",");
        let desc = removed.iter().rev().map(|j| j.to_string()).collect::<Vec<_>>().join(",");
        let keep = kept.iter().map(|j| j.to_string()).collect::<Vec<_>>().join(",");
        for (opt, list) in [("-m", &asc), ("-m", &desc), ("-M", &keep)] {
            let (code, out, err) = view(opt, list);
            assert_eq!((code, out.as_str()), (Some(0), expect.as_str()), "sfs view {opt} {list} on shape 2/3/2/4: {err}");
        }
    }
    // duplicate axes, out-of-range axes and removing every axis are errors
    for list in ["1,1", "0,2,0", "4", "0,4", "7", "0,1,2,3", "3,2,1,0"] {
        let (code, out, err) = view("-m", list);
        assert!(code == Some(1) && out.is_empty() && !err.contains("panicked"), "sfs view -m {list} on a 4-axis spectrum must be a diagnosed error, got status {code:?}, stdout {out:?}, stderr {err:?}");
    }
    let _ = std::fs::remove_dir_all(&dir);
}
"""

CREATE_NATIVE_TEST = r"""
// generated by /verif (mir2smt replay for the create runner): the built `sfs create` on inline VCFs
use std::process::Command;

const CHECK_COUNTS: bool = @COUNTS@;
const CHECK_STRICT: bool = @STRICT@;
const CHECK_PLOIDY: bool = @PLOIDY@;

fn create(vcf: &str, extra: &[&str]) -> (Option<i32>, String, String) {
    let dir = std::env::temp_dir().join(format!("kv_create_{}_{}", std::process::id(), vcf.len()));
    std::fs::create_dir_all(&dir).unwrap();
    let path = dir.join("in.vcf");
    std::fs::write(&path, vcf).unwrap();
    let mut args: Vec<String> = vec!["create".into()];
    args.extend(extra.iter().map(|s| s.to_string()));
    args.push(path.display().to_string());
    let out = Command::new(env!("CARGO_BIN_EXE_sfs")).args(&args).env("SFS_ALLOW_STDIN", "1").stdin(std::process::Stdio::null()).output().expect("sfs runs");
    let _ = std::fs::remove_dir_all(&dir);
    (out.status.code(), String::from_utf8_lossy(&out.stdout).to_string(), String::from_utf8_lossy(&out.stderr).to_string())
}

fn vcf(records: &[(&str, usize, [&str; 3])]) -> String {
    let mut s = String::from("##fileformat=VCFv4.3\n##contig=<ID=chr1>\n##contig=<ID=chr2>\n##FORMAT=<ID=GT,Number=1,Type=String,Description=\"Genotype\">\n#CHROM\tPOS\tID\tREF\tALT\tQUAL\tFILTER\tINFO\tFORMAT\ta\tb\tc\n");
    for (chrom, pos, gts) in records {
        s += &format!("{chrom}\t{pos}\t.\tA\tC\t.\t.\t.\tGT\t{}\t{}\t{}\n", gts[0], gts[1], gts[2]);
    }
    s
}

#[test]
fn kv_create_runner() {
    let complete = [("chr1", 3usize, ["0/0", "0/1", "1/1"]), ("chr1", 9, ["0/1", "0|0", "0/0"]), ("chr1", 27, ["./.", "0/1", "0/0"]), ("chr2", 8, ["1/1", "1|1", "1/1"]), ("chr2", 12, ["0/0", "1/2", "0/0"]), ("chr2", 19, ["0/1", "0/1", "0/1"])];
    if CHECK_COUNTS {
        // ALT totals of the complete records: 3, 1, (skipped), 6, (skipped), 3
        let (code, out, err) = create(&vcf(&complete), &[]);
        assert_eq!((code, out.as_str()), (Some(0), "#SHAPE=<7>\n0 1 0 2 0 0 1\n"), "sfs create on six records (two with an incomplete sample): {err}");
        // the same records in two files add up
        let (_, first, _) = create(&vcf(&complete[..3]), &[]);
        let (_, second, _) = create(&vcf(&complete[3..]), &[]);
        assert_eq!((first.as_str(), second.as_str()), ("#SHAPE=<7>\n0 1 0 1 0 0 0\n", "#SHAPE=<7>\n0 0 0 1 0 0 1\n"), "the two halves on their own");
    }
    if CHECK_STRICT {
        for verbosity in [vec![], vec!["-v"], vec!["-vv"], vec!["-q"], vec!["-qq"]] {
            let mut flags = verbosity.clone();
            flags.push("--strict");
            let (code, out, err) = create(&vcf(&complete), &flags);
            assert!(code == Some(1) && out.is_empty(), "a strict run ({flags:?}) over a record with a missing genotype must fail without a spectrum: status {code:?}, stdout {out:?}");
            assert!(err.contains("chr1:27"), "the strict failure ({flags:?}) must name the first record that would be skipped (chr1:27): {err}");
            // and the lenient run is the same spectrum at every verbosity
            let (code, out, _) = create(&vcf(&complete), &verbosity);
            assert_eq!((code, out.as_str()), (Some(0), "#SHAPE=<7>\n0 1 0 2 0 0 1\n"), "lenient run with {verbosity:?}");
        }
        // every skipped record is counted as skipped, also when records share a position across contigs
        let same_pos = [("chr1", 8usize, ["./.", "0/1", "0/0"]), ("chr2", 8, ["0/1", "./.", "0/0"]), ("chr2", 9, ["0/1", "0/0", "0/0"])];
        let (code, out, err) = create(&vcf(&same_pos), &["-v"]);
        assert_eq!((code, out.as_str()), (Some(0), "#SHAPE=<7>\n0 1 0 0 0 0 0\n"), "records sharing a position: {err}");
        assert!(err.contains("2/3"), "two of the three records must be reported as skipped (summary line 'Skipped 2/3 sites'): {err}");
        let (code, out, err) = create(&vcf(&same_pos[1..]), &["--strict"]);
        assert!(code == Some(1) && out.is_empty() && err.contains("chr2:8"), "strict run must fail at chr2:8: status {code:?}, {err}");
        // also when a later record is unreadable for another reason
        let mut with_haploid = complete.to_vec();
        with_haploid.push(("chr2", 30, ["0", "0/1", "0/0"]));
        let (code, out, err) = create(&vcf(&with_haploid), &["--strict"]);
        assert!(code == Some(1) && out.is_empty() && err.contains("chr1:27"), "strict run, later haploid record: status {code:?}, stdout {out:?}, stderr {err}");
        let (code, out, _) = create(&vcf(&complete[..2]), &["--strict"]);
        assert_eq!((code, out.as_str()), (Some(0), "#SHAPE=<7>\n0 1 0 1 0 0 0\n"), "a strict run over complete records equals the lenient one");
    }
    if CHECK_PLOIDY {
        for (i, gts) in [["0", "0/1", "0/0"], ["0/0", "0/1", "0/0/1"], ["0/0", "1", "0/0"]].iter().enumerate() {
            let mut recs = complete[..2].to_vec();
            recs.push(("chr2", 40 + i, *gts));
            recs.push(("chr2", 50, ["0/0", "0/0", "0/1"]));
            let (code, out, err) = create(&vcf(&recs), &[]);
            assert!(code == Some(1) && out.is_empty(), "a non-diploid genotype ({gts:?}) must fail the run without a spectrum: status {code:?}, stdout {out:?}");
            assert!(err.contains(&format!("chr2:{}", 40 + i)), "the error must name contig and position chr2:{}: {err}", 40 + i);
        }
    }
}
"""


def _create_native(counts, strict, ploidy):
    code = CREATE_NATIVE_TEST.replace("@COUNTS@", str(counts).lower()).replace("@STRICT@", str(strict).lower()).replace("@PLOIDY@", str(ploidy).lower())
    return dict(crate="sfs-cli", file="cli/tests/kv_create_runner.rs", name="kv_create_runner", code=code, integration=True)


def _native_by_property():
    """a task that serves several properties is replayed with the clause of the property being checked:
    a failing replay must be a violation of THAT property's statement"""
    return {
        ("C10", "pmf_wiring"): dict(crate="sfs-core", file="core/src/utils.rs", name="kv_pmf_rows_sum_to_one", code=PMF_SUM_NATIVE_TEST),
        ("C06", "pmf_wiring"): dict(crate="sfs-core", file="core/src/utils.rs", name="kv_binomial_against_exact", code=BINOMIAL_NATIVE_TEST),
        ("C17", "header_write_padding"): dict(crate="sfs-core", file="core/src/array/npy/header.rs", name="kv_header_write_never_panics", code=HEADER_PANIC_NATIVE_TEST),
        ("C07", "write_dispatch_wiring"): dict(crate="sfs-core", file="core/src/spectrum/io/write.rs", name="kv_written_spectrum_is_read_back", code=WRITE_ROUNDTRIP_NATIVE_TEST),
        ("C13", "write_dispatch_wiring"): dict(crate="sfs-core", file="core/src/spectrum/io/write.rs", name="kv_written_spectrum_is_read_back", code=WRITE_ROUNDTRIP_NATIVE_TEST),
        ("C10", "runner_step"): _create_native(True, True, True),
        ("C01", "runner_step"): _create_native(True, False, False),
        ("C11", "runner_step"): _create_native(True, False, False),
        ("C08", "runner_step"): _create_native(False, False, True),
        ("C04", "view_pipeline"): dict(crate="sfs-cli", file="cli/tests/kv_view_marginalize_cli.rs", name="kv_view_marginalize_cli", code=VIEW_MARGINALIZE_NATIVE_TEST, integration=True),
        ("C17", "view_pipeline"): dict(crate="sfs-cli", file="cli/tests/kv_view_never_panics.rs", name="kv_view_never_panics", code=VIEW_PANIC_NATIVE_TEST, integration=True),
    }


def run_task(name, scratch, tier, seed, logdir, prop=None):
    try:
        res = TASKS[name](scratch, tier, seed, logdir)
    except Exception as e:  # the translator gave up on the changed code: never a pass; a native test may still decide
        import traceback
        res = [dict(name=name, status="inconclusive", detail="".join(traceback.format_exception_only(type(e), e)).strip(), trace=traceback.format_exc()[-1500:],
                    functions=[], bounds="", queries=0, nonvacuous=False, time_s=0.0, solver_time_s=0.0, sample_query="", model=None)]
    # an obligation that did not come out as "holds" (wrong form, unrecognised form, or the translator
    # could not even find the function) and has a native test: the real code decides (see check)
    reg = _native_registry()
    byprop = _native_by_property()
    for o in res:
        if o.get("status") == "holds":
            continue
        if (prop, o.get("name")) in byprop:
            o["native_test"] = byprop[(prop, o.get("name"))]
        elif "native_test" not in o and o.get("name") in reg:
            o["native_test"] = reg[o["name"]]
    with open(os.path.join(logdir, f"mtask-{name}.json"), "w") as fh:
        json.dump(res, fh, indent=1, default=str)
    return res
