import re, sys, subprocess
src = open('/tmp/core.mir').read()
# extract function by header substring
def get_fn(marker):
    i = src.index(marker)
    j = src.index('\n}\n', i)
    return src[i:j]
body = get_fn('fn d::<impl at core/src/spectrum/stat/d.rs:33:1: 33:33>::variance')
blocks = {}
for m in re.finditer(r'\n    (bb\d+)(?: \(cleanup\))?: \{\n(.*?)\n    \}', body, re.S):
    blocks[m.group(1)] = [l.strip() for l in m.group(2).split('\n')]
types = dict(re.findall(r'let (?:mut )?(_\d+): ([^;]+);', body))
types['_1'] = '&Spectrum'
env = {}
vcs = []
decls = ['(declare-const elements Int)', '(declare-const S Real)', '(declare-const a Real)', '(declare-const g Real)']
def opnd(s):
    s = s.strip()
    s = re.sub(r'^(copy|move) ', '', s)
    m = re.match(r'const (-?[\d.]+)(_?[a-z]+\d*)', s)
    if m:
        v, t = m.groups()
        if t.startswith('f'): return v if '.' in v else v + '.0'
        return v
    m = re.match(r'\((_\d+)\.(\d): [^)]+\)', s)
    if m: return env[(m.group(1), int(m.group(2)))]
    return env[s]
cur = 'bb0'; path = []
while True:
    for st in blocks[cur]:
        st = st.rstrip(';')
        m = re.match(r'(_\d+) = (\w+)WithOverflow\((.*), (.*)\)$', st)
        if m:
            d, op, x, y = m.groups(); x, y = opnd(x), opnd(y)
            sym = {'Sub': '-', 'Add': '+', 'Mul': '*'}[op]
            r = f'({sym} {x} {y})'
            env[(d, 0)] = r; env[(d, 1)] = f'(or (< {r} 0) (> {r} 18446744073709551615))'
            continue
        m = re.match(r'assert\(!move \((_\d+)\.1: bool\), "([^"]*)".*success: (bb\d+)', st)
        if m:
            vcs.append((m.group(2), env[(m.group(1), 1)], list(path))); nxt = m.group(3); continue
        m = re.match(r'(_\d+) = (Add|Sub|Mul|Div)\((.*), (.*)\)$', st)
        if m:
            d, op, x, y = m.groups(); sym = {'Sub': '-', 'Add': '+', 'Mul': '*', 'Div': '/'}[op]
            env[d] = f'({sym} {opnd(x)} {opnd(y)})'; continue
        m = re.match(r'(_\d+) = (.*) as (\w+) \((\w+)\)$', st)
        if m:
            d, x, t, kind = m.groups()
            env[d] = f'(to_real {opnd(x)})' if kind == 'IntToFloat' else opnd(x); continue
        m = re.match(r'(_\d+) = (.*?)\((.*)\) -> \[return: (bb\d+)', st)
        if m:
            d, f, args, nxt = m.groups()
            if f.endswith('::elements'): env[d] = 'elements'
            elif f.endswith('segregating_sites'): env[d] = 'S'
            elif f == 'harmonic': env[d] = 'a'
            elif f == 'p_harmonic': env[d] = 'g'
            elif f.endswith('powi'):
                x, k = args.split(', '); x = opnd(x); env[d] = f'(* {x} {x})'; assert '2_i32' in k
            elif f.endswith('sqrt'):
                x = opnd(args); nm = f'sq{len(decls)}'; decls.append(f'(declare-const {nm} Real)'); path.append(f'(and (>= {nm} 0.0) (= (* {nm} {nm}) {x}))'); env[d] = nm
            else: raise Exception(f)
            continue
        m = re.match(r'(_\d+) = move \((_\d+)\.0: \w+\)$', st)
        if m: env[m.group(1)] = env[(m.group(2), 0)]; continue
        m = re.match(r'(_\d+) = (copy|move) (_\d+)$', st)
        if m: env[m.group(1)] = env[m.group(3)]; continue
        if st == 'return': nxt = None; continue
        raise Exception('unhandled: ' + st)
    if nxt is None: break
    cur = nxt
print('result term size', len(env['_0']))
# VC 1: overflow asserts under precondition elements >= 1 (a spectrum has >= 1 cell)
for msg, cond, pc in vcs:
    q = '\n'.join(decls) + '\n(assert (and (>= elements 1) (<= elements 1000000)))\n' + f'(assert {cond})\nX
    r = subprocess.run(['z3', '-in'], input=q, capture_output=True, text=True).stdout.strip()
    print('overflow-vc', msg[:40], r.replace('\n',' '))
# identity vs Fu & Li (1993): var = sqrt(u S + v S^2)/a  with n = elements-1
spec = '''
(define-fun n () Real (to_real (- elements 1)))
(define-fun c () Real (/ (* 2.0 (- (* n a) (* 2.0 (- n 1.0)))) (* (- n 1.0) (- n 2.0))))
(define-fun v () Real (+ 1.0 (* (/ (* a a) (+ g (* a a))) (- c (/ (+ n 1.0) (- n 1.0))))))
(define-fun u () Real (- (- a 1.0) v))
'''
q = '\n'.join(decls) + spec + '(assert (and (>= elements 4) (> a 0.0) (> g 0.0) (>= S 0.0)))\n' + '\n'.join(f'(assert {p})' for p in path) + f'''
(declare-const ref Real)
(assert (and (>= ref 0.0) (= (* ref ref) (+ (* u S) (* v (* S S))))))
(assert (not (= {env['_0']} (/ ref a))))
(check-sat)
'''
open('/tmp/m2s/q.smt2', 'w').write(q)
import time; t = time.time()
r = subprocess.run(['z3', '-T:60', '/tmp/m2s/q.smt2'], capture_output=True, text=True).stdout.strip()
print('identity (unsat = holds):', r, round(time.time() - t, 2), 's')
