#!/usr/bin/env python3
"""Prototype: glue-mode symbolic execution of a MIR body with calls as uninterpreted terms.
Enumerates feasible paths (branch conditions over discriminants/flags), records the term that
reaches the writer, compares with the spec term."""
import re, sys, itertools, subprocess

src = open(sys.argv[1] if len(sys.argv) > 1 else '/tmp/m2s/view_run.mir').read()

# ---------- parse ----------
blocks = {}
for m in re.finditer(r'\n    (bb\d+)( \(cleanup\))?: \{\n(.*?)\n    \}', src, re.S):
    stmts = [l.strip().rstrip(';') for l in m.group(3).split('\n')]
    stmts = [s for s in stmts if s and not s.startswith(('StorageLive', 'StorageDead', 'FakeRead', 'nop', 'PlaceMention', 'Retag'))]
    blocks[m.group(1)] = (stmts, bool(m.group(2)))

def split_args(s):
    out, depth, cur = [], 0, ''
    for ch in s:
        if ch in '([{<': depth += 1
        if ch in ')]}>': depth -= 1
        if ch == ',' and depth == 0:
            out.append(cur.strip()); cur = ''
        else:
            cur += ch
    if cur.strip(): out.append(cur.strip())
    return out

class State:
    def __init__(s):
        s.env = {}          # local -> term
        s.pc = []           # list of (term, value)
        s.events = []       # (name, args)
        s.ref = {}          # local holding a reference -> root local it points into (provenance)
    def clone(s):
        t = State(); t.env = dict(s.env); t.pc = list(s.pc); t.events = list(s.events); t.ref = dict(s.ref); return t

def parse_place(p):
    """returns (base_local, [projections])"""
    p = p.strip()
    m = re.fullmatch(r'_\d+', p)
    if m: return p, []
    m = re.fullmatch(r'\(\*(.+)\)', p)
    if m:
        b, pr = parse_place(m.group(1)); return b, pr + [('deref',)]
    m = re.fullmatch(r'\((.+) as (\w+)\)\.(\d+)', p)   # ((X as Some).0: T) handled below
    m = re.fullmatch(r'\((.+)\.(\d+): .+\)', p)
    if m:
        inner = m.group(1).strip()
        m2 = re.fullmatch(r'\((.+) as (\w+)\)', inner)
        if m2:
            b, pr = parse_place(m2.group(1)); return b, pr + [('variant', m2.group(2)), ('field', int(m.group(2)))]
        b, pr = parse_place(inner); return b, pr + [('field', int(m.group(2)))]
    m = re.fullmatch(r'(.+)\[(_\d+)\]', p)
    if m:
        b, pr = parse_place(m.group(1)); return b, pr + [('index', m.group(2))]
    raise Exception('place? ' + p)

def read_place(st, p):
    b, pr = parse_place(p)
    t = st.env.get(b, ('undef', b))
    for x in pr:
        if x[0] == 'deref':
            if isinstance(t, tuple) and t[0] == 'ref': t = st.env.get(t[1], ('undef', t[1]))
            else: t = ('deref', t)
        elif x[0] == 'field':
            if isinstance(t, tuple) and t[0] == 'tuple': t = t[1][x[1]]
            else: t = ('field', t, x[1])
        elif x[0] == 'variant': t = ('as', t, x[1])
        elif x[0] == 'index': t = ('select', t, st.env[x[1]])
    return t

def operand(st, s):
    s = s.strip()
    if s.startswith('const '): return ('const', s[6:])
    s = re.sub(r'^(copy|move) ', '', s)
    if not re.match(r'[_(]', s): return ('fnitem', s)
    return read_place(st, s)

def root_of(st, local):
    seen = set()
    while local in st.ref and local not in seen:
        seen.add(local); local = st.ref[local]
    return local

results = []   # finished paths

def run(st, bb, depth=0):
    while True:
        stmts, cleanup = blocks[bb]
        nxt = None
        for s in stmts:
            # terminators
            m = re.fullmatch(r'goto -> (bb\d+)', s)
            if m: nxt = m.group(1); break
            if s == 'return': results.append(('return', st)); return
            if s in ('unreachable',): return
            if s.startswith('resume') or s.startswith('unwind'): return
            m = re.fullmatch(r'switchInt\((.+)\) -> \[(.+)\]', s)
            if m:
                t = operand(st, m.group(1))
                targets = [x.strip() for x in m.group(2).split(',')]
                vals = []
                for tg in targets:
                    k, b2 = tg.split(': ')
                    vals.append((k, b2))
                known = dict((repr(a), v) for a, v in st.pc).get(repr(t))
                explicit = [k for k, _ in vals if k != 'otherwise']
                for k, b2 in vals:
                    if blocks[b2][0] == ['unreachable']: continue
                    if known is not None:
                        if k != 'otherwise' and k != known: continue
                        if k == 'otherwise' and known in explicit: continue
                    s2 = st.clone()
                    if known is None:
                        s2.pc.append((t, k if k != 'otherwise' else 'not(' + ','.join(explicit) + ')'))
                    run(s2, b2, depth + 1)
                return
            m = re.fullmatch(r'drop\((.+)\) -> \[return: (bb\d+).*\]', s)
            if m: nxt = m.group(2); break
            m = re.fullmatch(r'assert\((!?)(.+?), "(.*?)".*\) -> \[success: (bb\d+).*\]', s)
            if m:
                st.events.append(('assert', m.group(3)[:40], operand(st, m.group(2)) if not m.group(2).startswith('move (') else m.group(2)))
                nxt = m.group(4); break
            m = re.fullmatch(r'(.+?) = (.+\)) -> \[return: (bb\d+).*\]', s) or re.fullmatch(r'(.+?) = (.+\)) -> (bb\d+)', s)
            if m and not m.group(2).startswith(('move', 'copy', '&', 'const')):
                dest, callexpr, nb = m.groups()
                # last balanced paren group
                depth = 0
                for i in range(len(callexpr) - 1, -1, -1):
                    if callexpr[i] == ')': depth += 1
                    elif callexpr[i] == '(':
                        depth -= 1
                        if depth == 0: break
                fn, args = callexpr[:i], callexpr[i + 1:-1]
                fn = re.sub(r'::<.*?>', '', fn)
                argts = [operand(st, a) for a in split_args(args)]
                short = fn.split('::')[-1] if not fn.startswith('<') else fn
                # &mut args: callee may mutate the root
                call = ('call', fn, tuple(argts))
                for a in split_args(args):
                    a2 = re.sub(r'^(copy|move) ', '', a.strip())
                    if re.fullmatch(r'_\d+', a2) and isinstance(st.env.get(a2), tuple) and st.env[a2][0] == 'ref' and st.env[a2][2] == 'mut':
                        root = root_of(st, a2)
                        tgt = st.env[a2][1]
                        if fn.endswith(('normalize',)):
                            st.env[tgt] = ('after', fn, st.env.get(tgt))
                        st.ref[dest] = tgt   # returned reference (if any) derives from it
                # returned refs derived from ref-args keep provenance
                for a in split_args(args):
                    a2 = re.sub(r'^(copy|move) ', '', a.strip())
                    if a2 in st.ref and dest not in st.ref: st.ref[dest] = st.ref[a2]
                st.env[dest] = call
                st.events.append(('call', fn, tuple(argts)))
                if 'panic' in fn: return
                nxt = nb; break
            # assignments
            m = re.fullmatch(r'(.+?) = (.+)', s)
            if not m: raise Exception('stmt? ' + s)
            dest, rhs = m.group(1).strip(), m.group(2).strip()
            if rhs.startswith('&'):
                mut = 'mut' if rhs.startswith('&mut ') else 'shr'
                pl = re.sub(r'^&(mut |raw const |raw mut )?(\(fake\) )?', '', rhs)
                b, pr = parse_place(pl)
                if pr and pr[-1] == ('deref',) and b in st.ref:
                    st.ref[dest] = st.ref[b]; val = ('ref', st.ref[b], mut)
                elif not pr:
                    val = ('ref', b, mut); st.ref[dest] = b
                else:
                    val = ('refp', read_place(st, pl))
                    if b in st.ref: st.ref[dest] = st.ref[b]
            elif rhs.startswith('discriminant('):
                val = ('disc', read_place(st, rhs[13:-1]))
            elif re.match(r'(Lt|Le|Gt|Ge|Eq|Ne|Add|Sub|Mul|SubWithOverflow|AddWithOverflow|MulWithOverflow|PtrMetadata|Not)\(', rhs):
                op = rhs[:rhs.index('(')]
                val = (op,) + tuple(operand(st, a) for a in split_args(rhs[rhs.index('(') + 1:-1]))
                if op.endswith('WithOverflow'): val = ('tuple', [(op[:3],) + val[1:], ('ovf',) + val])
            elif rhs.startswith('(') and rhs.endswith(')') and not rhs.startswith('(*') and ': ' not in rhs.split(')')[0]:
                val = ('tuple', [operand(st, a) for a in split_args(rhs[1:-1])])
            elif re.match(r'[\w:<>{}@/. ]+ \{.*\}$', rhs):    # struct / closure aggregate
                name = rhs[:rhs.index('{')].strip()
                fields = split_args(rhs[rhs.index('{') + 1:-1])
                val = ('struct', name, tuple(operand(st, f.split(': ', 1)[1]) for f in fields if ': ' in f))
            elif re.match(r'[\w:<>, ]+\((.*)\)$', rhs) and not rhs.startswith(('copy', 'move', 'const')):   # tuple-struct ctor
                name = rhs[:rhs.index('(')]
                val = ('ctor', re.sub(r'::<.*?>', '', name), tuple(operand(st, a) for a in split_args(rhs[rhs.index('(') + 1:-1])))
            elif ' as ' in rhs and rhs.endswith(')') and '(' in rhs.split(' as ')[-1]:
                val = operand(st, rhs.split(' as ')[0])
            else:
                val = operand(st, rhs)
            # store
            b, pr = parse_place(dest)
            if not pr:
                st.env[b] = val
                if re.fullmatch(r'(copy |move )?_\d+', rhs):
                    r2 = re.sub(r'^(copy|move) ', '', rhs)
                    if r2 in st.ref: st.ref[b] = st.ref[r2]
            elif pr[0] == ('deref',) and b in st.ref:
                root = root_of(st, b)
                idx = st.env[pr[1][1]] if len(pr) > 1 and pr[1][0] == 'index' else None
                st.env[root] = ('store', st.env.get(root), idx, val)
            else:
                st.env[b] = ('upd', st.env.get(b), tuple(pr), val)
        if nxt is None: raise Exception('no terminator in ' + bb)
        bb = nxt

st0 = State()
st0.env['_1'] = ('arg', 'self')
run(st0, 'bb0')

def show(t, d=0):
    if not isinstance(t, tuple): return str(t)
    if t[0] == 'call': return t[1].split('::')[-1] + '(' + ', '.join(show(a) for a in t[2]) + ')'
    if t[0] == 'after': return t[1].split('::')[-1] + '!(' + show(t[2]) + ')'
    if t[0] == 'store': return 'store(' + show(t[1]) + ', ' + show(t[2]) + ', ' + show(t[3]) + ')'
    if t[0] == 'const': return t[1]
    if t[0] == 'arg': return t[1]
    if t[0] == 'field': return show(t[1]) + '.' + str(t[2])
    if t[0] == 'as': return '(' + show(t[1]) + ' as ' + t[2] + ')'
    if t[0] == 'ref': return '&' + t[1]
    if t[0] == 'tuple': return '(' + ', '.join(show(a) for a in t[1]) + ')'
    if t[0] == 'ctor': return t[1].split('::')[-1] + '(' + ', '.join(show(a) for a in t[2]) + ')'
    if t[0] == 'struct': return t[1].split('::')[-1][:18] + '{' + ', '.join(show(a) for a in t[2]) + '}'
    return t[0] + '(' + ', '.join(show(a) for a in t[1:]) + ')'

print('paths reaching return:', len(results))
n = 0
for kind, st in results:
    writes = [e for e in st.events if e[0] == 'call' and 'write_to_path_or_stdout' in e[1]]
    flags = [(show(a), v) for a, v in st.pc]
    if not writes: continue
    n += 1
    # the third argument is &_2 : show the value of _2 at that time is gone; we recorded args as terms at call time
    print('--- path', n)
    print('   pc:', '; '.join(f'{a}={v}' for a, v in flags if 'self' in a))
    print('   written:', show(writes[0][2][2]) if writes[0][2][2][0] != 'ref' else show(st.env['_2']))
print('paths with a write:', n)
