// child of crate::spectrum::io
use super::*;
#[kani::proof]
#[kani::unwind(10)]
fn format_detect_any_prefix() {
    let bytes: [u8; 8] = kani::any();
    let len: usize = kani::any();
    kani::assume(len <= 8);
    let r = Format::detect(&bytes[..len]);
    let is_npy = len >= 6 && bytes[0] == 0x93 && bytes[1] == b'N' && bytes[2] == b'U' && bytes[3] == b'M' && bytes[4] == b'P' && bytes[5] == b'Y';
    let is_txt = len >= 6 && bytes[0] == b'#' && bytes[1] == b'S' && bytes[2] == b'H' && bytes[3] == b'A' && bytes[4] == b'P' && bytes[5] == b'E';
    if is_npy { assert!(r == Some(Format::Npy)); } else if is_txt { assert!(r == Some(Format::Text)); } else { assert!(r.is_none()); }
}
