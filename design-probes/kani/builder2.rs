// child of crate::input::genotype::reader::builder
use super::*;
use std::io::{self, BufRead, Read};

struct Chunked<'a> { data: &'a [u8], first: usize, pos: usize, first_done: bool }
impl<'a> Read for Chunked<'a> {
    fn read(&mut self, buf: &mut [u8]) -> io::Result<usize> {
        let avail = self.fill_buf()?;
        let n = if avail.len() < buf.len() { avail.len() } else { buf.len() };
        buf[..n].copy_from_slice(&avail[..n]);
        self.consume(n);
        Ok(n)
    }
}
impl<'a> BufRead for Chunked<'a> {
    fn fill_buf(&mut self) -> io::Result<&[u8]> {
        if self.pos < self.first { Ok(&self.data[self.pos..self.first]) } else { Ok(&self.data[self.pos..]) }
    }
    fn consume(&mut self, amt: usize) { self.pos += amt; }
}

#[kani::proof]
#[kani::unwind(10)]
fn detect_first_chunk() {
    let data: [u8; 6] = kani::any();
    let first: usize = kani::any();
    kani::assume(first >= 1 && first <= 6);
    let mut whole = Chunked { data: &data, first: 6, pos: 0, first_done: false };
    let mut part = Chunked { data: &data, first, pos: 0, first_done: false };
    let a = match CompressionMethod::detect(&mut whole) { Ok(v) => v, Err(e) => { core::mem::forget(e); return; } };
    let b = match CompressionMethod::detect(&mut part) { Ok(v) => v, Err(e) => { core::mem::forget(e); return; } };
    assert!(a == b);
}
