// child of crate::array::shape
use super::*;

// for every rank-3 shape with lengths 1..6 and every multi-index k:
//   flat(k) = strides . k ; index_from_flat(flat) = k ; index_sum = sum k ;
//   mirror: flat(n-1-k) = elements-1-flat(k)
#[kani::proof]
#[kani::unwind(6)]
fn shape_index_lemmas_rank3() {
    let n: [usize; 3] = kani::any();
    let k: [usize; 3] = kani::any();
    for j in 0..3 { kani::assume(n[j] >= 1 && n[j] <= 6 && k[j] < n[j]); }
    let shape = Shape(vec![n[0], n[1], n[2]]);
    let strides = shape.strides();
    assert!(strides.0[0] == n[1] * n[2] && strides.0[1] == n[2] && strides.0[2] == 1);
    let flat = strides.flat_index(&shape, k).unwrap();
    assert!(flat == (k[0] * n[1] + k[1]) * n[2] + k[2]);
    let back = shape.index_from_flat_unchecked(flat);
    assert!(back[0] == k[0] && back[1] == k[1] && back[2] == k[2]);
    assert!(shape.index_sum_from_flat_unchecked(flat) == k[0] + k[1] + k[2]);
    let m = [n[0] - 1 - k[0], n[1] - 1 - k[1], n[2] - 1 - k[2]];
    let mflat = strides.flat_index(&shape, m).unwrap();
    assert!(mflat == shape.elements() - 1 - flat);
    core::mem::forget(back);
}

#[kani::proof]
#[kani::unwind(6)]
fn removed_axis_last_into_shape() {
    let shape = Shape(vec![2, 3]);
    let s = shape.remove_axis(Axis(1)).into_shape();
    assert!(s.0.len() == 1);
    assert!(s.0[0] == 2);
}

#[kani::proof]
#[kani::unwind(6)]
fn removed_axis_first_into_shape() {
    let shape = Shape(vec![2, 3]);
    let s = shape.remove_axis(Axis(0)).into_shape();
    assert!(s.0.len() == 1);
    assert!(s.0[0] == 3);
}
