// child of crate::array
use super::*;

fn choice(n: usize) -> usize {
    let c: usize = kani::any();
    kani::assume(c < n);
    c
}

// elements are their own flat position
fn axis_view_case(shape: &[usize], axis: usize, pos: usize) {
    let n: usize = shape.iter().product();
    let arr: Array<u8> = Array::from_iter((0..n).map(|v| v as u8), shape.to_vec()).unwrap();
    let view = arr.get_axis(Axis(axis), pos).unwrap();
    let mut it = view.iter();
    // expected: all flat p whose axis-th index == pos, increasing
    let mut stride = 1usize;
    let mut k = shape.len();
    while k > axis + 1 { k -= 1; stride *= shape[k]; }
    let mut expected_left = n / shape[axis];
    let mut p = 0usize;
    while p < n {
        if (p / stride) % shape[axis] == pos {
            assert!(it.len() == expected_left);
            let got = it.next();
            assert!(got == Some(&(p as u8)));
            expected_left -= 1;
        }
        p += 1;
    }
    assert!(it.len() == 0);
    assert!(it.next().is_none());
    assert!(it.next().is_none());
    assert!(it.next().is_none());
}

#[kani::proof]
#[kani::unwind(14)]
fn axis_view_case_split() {
    // case index symbolic; each branch concrete structure
    match choice(5) {
        0 => axis_view_case(&[2, 3], 0, choice(2)),
        1 => axis_view_case(&[2, 3], 1, choice(3)),
        2 => axis_view_case(&[2, 3, 2], 0, choice(2)),
        3 => axis_view_case(&[2, 3, 2], 1, choice(3)),
        _ => axis_view_case(&[2, 3, 2], 2, choice(2)),
    }
}

#[kani::proof]
#[kani::unwind(14)]
fn axis_iter_len() {
    let arr: Array<u8> = Array::from_element(0u8, vec![3, 2]);
    let mut it = arr.iter_axis(Axis(0));
    assert!(it.len() == 3);
    let _ = it.next();
    assert!(it.len() == 2);
}

#[kani::proof]
#[kani::unwind(14)]
fn axis_view_232_a1_p1() { axis_view_case(&[2, 3, 2], 1, 1); }

#[kani::proof]
#[kani::unwind(14)]
fn axis_view_split_concrete_pos() {
    match choice(3) {
        0 => axis_view_case(&[2, 3], 0, 1),
        1 => axis_view_case(&[2, 3], 1, 2),
        _ => axis_view_case(&[2, 3, 2], 2, 1),
    }
}

#[kani::proof]
#[kani::unwind(14)]
fn axis_view_23_a0_sympos() { axis_view_case(&[2, 3], 0, choice(2)); }

#[kani::proof]
#[kani::unwind(6)]
fn from_zeros_after_remove_last() {
    let shape = Shape(vec![2, 2]);
    let small = shape.remove_axis(Axis(1)).into_shape();
    let z: Array<f64> = Array::from_zeros(small);
    assert!(z.as_slice().len() == 2);
}

#[kani::proof]
#[kani::unwind(6)]
fn iter_axis_last_views() {
    let arr: Array<u8> = Array::from_iter(0..4u8, vec![2, 2]).unwrap();
    let mut n = 0;
    for v in arr.iter_axis(Axis(1)) {
        let mut it = v.iter();
        assert!(it.next() == Some(&(n as u8)));
        assert!(it.next() == Some(&(n as u8 + 2)));
        assert!(it.next().is_none());
        n += 1;
    }
    assert!(n == 2);
}

#[kani::proof]
#[kani::unwind(6)]
fn zip_last_view_manual() {
    let arr: Array<f64> = Array::new(vec![1.0, 2.0, 4.0, 8.0], vec![2, 2]).unwrap();
    let mut acc: Array<f64> = Array::from_zeros(vec![2usize]);
    let view = arr.get_axis(Axis(1), 0).unwrap();
    acc.iter_mut().zip(view.iter()).for_each(|(x, y)| *x += y);
    assert!(acc.as_slice()[0] == 1.0 && acc.as_slice()[1] == 4.0);
}

fn model_into_shape<'a>(r: crate::array::shape::RemovedAxis<'a, Shape>) -> Shape where 'a: 'a {
    let n = r.len();
    let mut v = Vec::with_capacity(n);
    let mut i = 0;
    while i < n { v.push(*r.get(i).unwrap()); i += 1; }
    Shape(v)
}

#[kani::proof]
#[kani::unwind(6)]
#[kani::stub(crate::array::shape::RemovedAxis::<'_, Shape>::into_shape, model_into_shape)]
fn sum_22_axis1_stub_into_shape() {
    let xi: [u8; 4] = kani::any();
    let mut x = [0.0f64; 4];
    for i in 0..4 { kani::assume(xi[i] < 8); x[i] = xi[i] as f64; }
    let arr = Array::new(x.to_vec(), [2usize, 2]).unwrap();
    let s = arr.sum(Axis(1));
    let out = s.as_slice();
    assert!(out[0] == (xi[0] as u32 + xi[1] as u32) as f64);
    assert!(out[1] == (xi[2] as u32 + xi[3] as u32) as f64);
}
