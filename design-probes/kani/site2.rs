// child of crate::input::site::reader
#![allow(unsafe_code)]
use super::*;
use crate::input::genotype::{Genotype, Skipped};
use crate::input::sample::population;

const NS: usize = 3;
// symbolic assignment: 0 = unselected, 1.. = population id + 1
static mut ASSIGN: [u8; NS] = [0; NS];
static mut NPOP: usize = 0;

fn sample_index(s: &Sample) -> usize {
    (s.as_ref().as_bytes()[1] - b'0') as usize
}

fn stub_get_population_id(_m: &sample::Map, s: &Sample) -> Option<population::Id> {
    let a = unsafe { ASSIGN[sample_index(s)] };
    if a == 0 { None } else { Some(population::Id(a as usize - 1)) }
}
fn stub_get_sample_id(_m: &sample::Map, s: &Sample) -> Option<sample::Id> {
    Some(sample::Id(sample_index(s)))
}
fn stub_number_of_populations(_m: &sample::Map) -> usize {
    unsafe { NPOP }
}

struct MemReader {
    samples: Vec<Sample>,
    record: Vec<genotype::Result>,
    served: bool,
}

impl genotype::Reader for MemReader {
    fn current_contig(&self) -> &str { "c" }
    fn current_position(&self) -> usize { 1 }
    fn read_genotypes(&mut self) -> ReadStatus<Vec<genotype::Result>> {
        if !self.served { self.served = true; ReadStatus::Read(self.record.clone()) } else { ReadStatus::Done }
    }
    fn samples(&self) -> &[Sample] { &self.samples }
}

fn any_gt() -> genotype::Result {
    let k: u8 = kani::any();
    kani::assume(k < 5);
    match k {
        0 => genotype::Result::Genotype(Genotype::Zero),
        1 => genotype::Result::Genotype(Genotype::One),
        2 => genotype::Result::Genotype(Genotype::Two),
        3 => genotype::Result::Skipped(Skipped::Missing),
        _ => genotype::Result::Skipped(Skipped::Multiallelic),
    }
}

fn alt(g: genotype::Result) -> Option<usize> {
    match g { genotype::Result::Genotype(x) => Some(x as u8 as usize), _ => None }
}

fn fixed_random_state() -> std::collections::hash_map::RandomState {
    unsafe { core::mem::transmute::<[u64; 2], std::collections::hash_map::RandomState>([1, 2]) }
}

#[kani::proof]
#[kani::unwind(6)]
#[kani::stub(std::collections::hash_map::RandomState::new, fixed_random_state)]
#[kani::stub(crate::input::sample::Map::get_population_id, stub_get_population_id)]
#[kani::stub(crate::input::sample::Map::get_sample_id, stub_get_sample_id)]
#[kani::stub(crate::input::sample::Map::number_of_populations, stub_number_of_populations)]
fn read_site_counts_dirty() {
    let d: usize = 2;
    let a: [u8; NS] = kani::any();
    let mut sizes = [0usize; 2];
    for i in 0..NS {
        kani::assume((a[i] as usize) <= d);
        if a[i] > 0 { sizes[a[i] as usize - 1] += 1; }
    }
    for p in 0..2 { if p < d { kani::assume(sizes[p] >= 1); } }
    unsafe { ASSIGN = a; NPOP = d; }

    let g = [any_gt(), any_gt(), any_gt()];
    let reader = MemReader {
        samples: vec![Sample::from("s0"), Sample::from("s1"), Sample::from("s2")],
        record: g.to_vec(),
        served: false,
    };
    let mut r = Reader::new_unchecked(Box::new(reader), sample::Map::default(), None);
    for p in 0..2 { if p < d { r.counts.0[p] = kani::any(); r.totals.0[p] = kani::any(); } }
    r.skipped_samples.push((sample::Id(0), Skipped::Missing));

    let mut c = [0usize; 2];
    let mut complete = true;
    for i in 0..NS {
        if a[i] > 0 {
            match alt(g[i]) { Some(v) => c[a[i] as usize - 1] += v, None => complete = false }
        }
    }
    let mut r = core::mem::ManuallyDrop::new(r);
    match r.read_site() {
        ReadStatus::Read(Site::Standard(cnt)) => {
            assert!(complete);
            assert!(cnt.0.len() == d);
            assert!(cnt.0[0] == c[0]);
            if d == 2 { assert!(cnt.0[1] == c[1]); }
            kani::cover!(d == 2, "standard 2 pops");
        }
        ReadStatus::Read(Site::InsufficientData) => { assert!(!complete); kani::cover!(true, "insufficient"); }
        _ => assert!(false),
    }
}

#[kani::proof]
#[kani::unwind(6)]
#[kani::stub(std::collections::hash_map::RandomState::new, fixed_random_state)]
#[kani::stub(crate::input::sample::Map::get_population_id, stub_get_population_id)]
#[kani::stub(crate::input::sample::Map::get_sample_id, stub_get_sample_id)]
#[kani::stub(crate::input::sample::Map::number_of_populations, stub_number_of_populations)]
fn read_site_concrete_assign() {
    let d: usize = 2;
    let a: [u8; NS] = [1, 0, 2];
    let mut sizes = [0usize; 2];
    for i in 0..NS {
        kani::assume((a[i] as usize) <= d);
        if a[i] > 0 { sizes[a[i] as usize - 1] += 1; }
    }
    for p in 0..2 { if p < d { kani::assume(sizes[p] >= 1); } }
    unsafe { ASSIGN = a; NPOP = d; }

    let g = [any_gt(), any_gt(), any_gt()];
    let reader = MemReader {
        samples: vec![Sample::from("s0"), Sample::from("s1"), Sample::from("s2")],
        record: g.to_vec(),
        served: false,
    };
    let mut r = Reader::new_unchecked(Box::new(reader), sample::Map::default(), None);
    for p in 0..2 { if p < d { r.counts.0[p] = kani::any(); r.totals.0[p] = kani::any(); } }
    r.skipped_samples.push((sample::Id(0), Skipped::Missing));

    let mut c = [0usize; 2];
    let mut complete = true;
    for i in 0..NS {
        if a[i] > 0 {
            match alt(g[i]) { Some(v) => c[a[i] as usize - 1] += v, None => complete = false }
        }
    }
    let mut r = core::mem::ManuallyDrop::new(r);
    match r.read_site() {
        ReadStatus::Read(Site::Standard(cnt)) => {
            assert!(complete);
            assert!(cnt.0.len() == d);
            assert!(cnt.0[0] == c[0]);
            if d == 2 { assert!(cnt.0[1] == c[1]); }
            kani::cover!(d == 2, "standard 2 pops");
        }
        ReadStatus::Read(Site::InsufficientData) => { assert!(!complete); kani::cover!(true, "insufficient"); }
        _ => assert!(false),
    }
}

#[kani::proof]
#[kani::unwind(6)]
#[kani::stub(std::collections::hash_map::RandomState::new, fixed_random_state)]
#[kani::stub(crate::input::sample::Map::get_population_id, stub_get_population_id)]
#[kani::stub(crate::input::sample::Map::get_sample_id, stub_get_sample_id)]
#[kani::stub(crate::input::sample::Map::number_of_populations, stub_number_of_populations)]
fn read_site_clean() {
    let d: usize = 2;
    let a: [u8; NS] = kani::any();
    let mut sizes = [0usize; 2];
    for i in 0..NS {
        kani::assume((a[i] as usize) <= d);
        if a[i] > 0 { sizes[a[i] as usize - 1] += 1; }
    }
    for p in 0..2 { if p < d { kani::assume(sizes[p] >= 1); } }
    unsafe { ASSIGN = a; NPOP = d; }

    let g = [any_gt(), any_gt(), any_gt()];
    let reader = MemReader {
        samples: vec![Sample::from("s0"), Sample::from("s1"), Sample::from("s2")],
        record: g.to_vec(),
        served: false,
    };
    let mut r = Reader::new_unchecked(Box::new(reader), sample::Map::default(), None);

    let mut c = [0usize; 2];
    let mut complete = true;
    for i in 0..NS {
        if a[i] > 0 {
            match alt(g[i]) { Some(v) => c[a[i] as usize - 1] += v, None => complete = false }
        }
    }
    let mut r = core::mem::ManuallyDrop::new(r);
    match r.read_site() {
        ReadStatus::Read(Site::Standard(cnt)) => {
            assert!(complete);
            assert!(cnt.0.len() == d);
            assert!(cnt.0[0] == c[0]);
            if d == 2 { assert!(cnt.0[1] == c[1]); }
            kani::cover!(d == 2, "standard 2 pops");
        }
        ReadStatus::Read(Site::InsufficientData) => { assert!(!complete); kani::cover!(true, "insufficient"); }
        _ => assert!(false),
    }
}

#[kani::proof]
#[kani::unwind(6)]
#[kani::stub(std::collections::hash_map::RandomState::new, fixed_random_state)]
fn baseline_setup_only() {
    let reader = MemReader { samples: vec![Sample::from("s0")], record: vec![any_gt()], served: false };
    let r = Reader::new_unchecked(Box::new(reader), sample::Map::default(), None);
    let r = core::mem::ManuallyDrop::new(r);
    assert!(r.counts.0.len() == 0);
}

#[kani::proof]
#[kani::unwind(6)]
fn baseline_no_map() {
    let reader = MemReader { samples: vec![Sample::from("s0")], record: vec![any_gt()], served: false };
    let mut b: Box<dyn genotype::Reader> = Box::new(reader);
    match b.read_genotypes() { ReadStatus::Read(v) => { assert!(v.len() == 1); core::mem::forget(v); } _ => assert!(false) }
    core::mem::forget(b);
}

#[kani::proof]
#[kani::unwind(6)]
#[kani::stub(std::collections::hash_map::RandomState::new, fixed_random_state)]
#[kani::stub(crate::input::sample::Map::get_population_id, stub_get_population_id)]
#[kani::stub(crate::input::sample::Map::get_sample_id, stub_get_sample_id)]
#[kani::stub(crate::input::sample::Map::number_of_populations, stub_number_of_populations)]
fn read_site_no_skips() {
    let d: usize = 2;
    let a: [u8; NS] = kani::any();
    let mut sizes = [0usize; 2];
    for i in 0..NS {
        kani::assume((a[i] as usize) <= d);
        if a[i] > 0 { sizes[a[i] as usize - 1] += 1; }
    }
    for p in 0..2 { if p < d { kani::assume(sizes[p] >= 1); } }
    unsafe { ASSIGN = a; NPOP = d; }

    let g = [any_gt(), any_gt(), any_gt()];
    for x in g.iter() { kani::assume(matches!(x, genotype::Result::Genotype(_))); }
    let reader = MemReader {
        samples: vec![Sample::from("s0"), Sample::from("s1"), Sample::from("s2")],
        record: g.to_vec(),
        served: false,
    };
    let mut r = Reader::new_unchecked(Box::new(reader), sample::Map::default(), None);
    for p in 0..2 { if p < d { r.counts.0[p] = kani::any(); r.totals.0[p] = kani::any(); } }
    r.skipped_samples.push((sample::Id(0), Skipped::Missing));

    let mut c = [0usize; 2];
    let mut complete = true;
    for i in 0..NS {
        if a[i] > 0 {
            match alt(g[i]) { Some(v) => c[a[i] as usize - 1] += v, None => complete = false }
        }
    }
    let mut r = core::mem::ManuallyDrop::new(r);
    match r.read_site() {
        ReadStatus::Read(Site::Standard(cnt)) => {
            assert!(complete);
            assert!(cnt.0.len() == d);
            assert!(cnt.0[0] == c[0]);
            if d == 2 { assert!(cnt.0[1] == c[1]); }
            kani::cover!(d == 2, "standard 2 pops");
        }
        ReadStatus::Read(Site::InsufficientData) => { assert!(!complete); kani::cover!(true, "insufficient"); }
        _ => assert!(false),
    }
}
