// child of crate::spectrum
use super::*;
use crate::array::Axis;

fn exact_binomial(n: u64, k: u64) -> f64 {
    // only used with k == 2 in the statistics
    if k > n { 0.0 } else if k == 2 { (n * (n - 1) / 2) as f64 } else { 1.0 }
}

fn close(a: f64, b: f64) -> bool {
    (a - b).abs() <= 1e-9 * (a.abs() + b.abs() + 1.0)
}

// (a) pi is unchanged by folding with fill zero: 1-D, 5 cells, small ints, tolerance
#[kani::proof]
#[kani::unwind(8)]
#[kani::stub(crate::utils::binomial, exact_binomial)]
fn pi_fold_invariant_5() {
    let xi: [u8; 5] = kani::any();
    let mut x = [0.0f64; 5];
    for i in 0..5 { kani::assume(xi[i] < 8); x[i] = xi[i] as f64; }
    let scs = Scs::new(x.to_vec(), [5usize]).unwrap();
    let folded = scs.fold().into_spectrum(0.0);
    let a = scs.pi().unwrap();
    let b = folded.pi().unwrap();
    assert!(close(a, b));
    // and equals the definition  sum_i x_i * i(n-i)/C(n,2), n = 4, in integers: 6*pi = sum x_i*i*(4-i)
    let t = (xi[1] as u32) * 3 + (xi[2] as u32) * 4 + (xi[3] as u32) * 3;
    assert!(close(a * 6.0, t as f64));
}

// (b) f3 = (f2(AB) + f2(AC) - f2(BC)) / 2 on shape [2,3,3] (dyadic frequencies), un-normalised
#[kani::proof]
#[kani::unwind(20)]
fn f3_from_f2_233() {
    let xi: [u8; 18] = kani::any();
    let mut x = [0.0f64; 18];
    for i in 0..18 { kani::assume(xi[i] < 4); x[i] = xi[i] as f64; }
    let sfs: Sfs = Scs::new(x.to_vec(), [2usize, 3, 3]).unwrap().into_state_unchecked();
    let f3 = sfs.f3().unwrap();
    let ab = sfs.marginalize(&[Axis(2)]).unwrap().f2().unwrap();
    let ac = sfs.marginalize(&[Axis(1)]).unwrap().f2().unwrap();
    let bc = sfs.marginalize(&[Axis(0)]).unwrap().f2().unwrap();
    assert!(2.0 * f3 == ab + ac - bc);
}

// f3 vs f2 of marginals computed by the integer model (no real marginalize)
#[kani::proof]
#[kani::unwind(20)]
#[kani::stub(f64::powi, powi_model)]
fn f3_from_f2_233_model_marginals() {
    let xi: [u8; 18] = kani::any();
    let mut x = [0.0f64; 18];
    for i in 0..18 { kani::assume(xi[i] < 4); x[i] = xi[i] as f64; }
    let sfs: Sfs = Scs::new(x.to_vec(), [2usize, 3, 3]).unwrap().into_state_unchecked();
    let f3 = sfs.f3().unwrap();
    let mut ab = [0.0f64; 6]; let mut ac = [0.0f64; 6]; let mut bc = [0.0f64; 9];
    for a in 0..2usize { for b in 0..3usize { for c in 0..3usize {
        let v = xi[a * 9 + b * 3 + c] as f64;
        ab[a * 3 + b] += v; ac[a * 3 + c] += v; bc[b * 3 + c] += v;
    }}}
    let fab: Sfs = Scs::new(ab.to_vec(), [2usize, 3]).unwrap().into_state_unchecked();
    let fac: Sfs = Scs::new(ac.to_vec(), [2usize, 3]).unwrap().into_state_unchecked();
    let fbc: Sfs = Scs::new(bc.to_vec(), [3usize, 3]).unwrap().into_state_unchecked();
    assert!(2.0 * f3 == fab.f2().unwrap() + fac.f2().unwrap() - fbc.f2().unwrap());
}

fn powi_model(x: f64, n: i32) -> f64 {
    let mut r = 1.0;
    let mut i = 0;
    while i < n { r *= x; i += 1; }
    r
}

#[kani::proof]
#[kani::unwind(20)]
#[kani::stub(f64::powi, powi_model)]
fn f2_powi_stub_23() {
    let xi: [u8; 6] = kani::any();
    let mut x = [0.0f64; 6];
    for i in 0..6 { kani::assume(xi[i] < 4); x[i] = xi[i] as f64; }
    let sfs: Sfs = Scs::new(x.to_vec(), [2usize, 3]).unwrap().into_state_unchecked();
    let f2 = sfs.f2().unwrap();
    // 4*f2 = sum x[a,b] * (2a - b)^2   (fa = a, fb = b/2)
    let mut t = 0i32;
    for a in 0..2i32 { for b in 0..3i32 { t += (xi[(a * 3 + b) as usize] as i32) * (2 * a - b) * (2 * a - b); } }
    assert!(4.0 * f2 == t as f64);
}

#[kani::proof]
#[kani::unwind(14)]
#[kani::stub(f64::powi, powi_model)]
fn f3_from_f2_223_small() {
    let xi: [u8; 12] = kani::any();
    let mut x = [0.0f64; 12];
    for i in 0..12 { kani::assume(xi[i] < 2); x[i] = xi[i] as f64; }
    let sfs: Sfs = Scs::new(x.to_vec(), [2usize, 2, 3]).unwrap().into_state_unchecked();
    let f3 = sfs.f3().unwrap();
    let mut ab = [0.0f64; 4]; let mut ac = [0.0f64; 6]; let mut bc = [0.0f64; 6];
    for a in 0..2usize { for b in 0..2usize { for c in 0..3usize {
        let v = xi[a * 6 + b * 3 + c] as f64;
        ab[a * 2 + b] += v; ac[a * 3 + c] += v; bc[b * 3 + c] += v;
    }}}
    let fab: Sfs = Scs::new(ab.to_vec(), [2usize, 2]).unwrap().into_state_unchecked();
    let fac: Sfs = Scs::new(ac.to_vec(), [2usize, 3]).unwrap().into_state_unchecked();
    let fbc: Sfs = Scs::new(bc.to_vec(), [2usize, 3]).unwrap().into_state_unchecked();
    assert!(2.0 * f3 == fab.f2().unwrap() + fac.f2().unwrap() - fbc.f2().unwrap());
}
