// child of crate::array::npy::header
#![allow(unsafe_code)]
use super::*;
const HDR: &[u8; 128] = b"\x93\x4e\x55\x4d\x50\x59\x01\x00\x76\x00\x7b\x27\x64\x65\x73\x63\x72\x27\x3a\x20\x27\x3c\x66\x38\x27\x2c\x20\x27\x66\x6f\x72\x74\x72\x61\x6e\x5f\x6f\x72\x64\x65\x72\x27\x3a\x20\x46\x61\x6c\x73\x65\x2c\x20\x27\x73\x68\x61\x70\x65\x27\x3a\x20\x28\x32\x2c\x29\x2c\x20\x7d\x20\x20\x20\x20\x20\x20\x20\x20\x20\x20\x20\x20\x20\x20\x20\x20\x20\x20\x20\x20\x20\x20\x20\x20\x20\x20\x20\x20\x20\x20\x20\x20\x20\x20\x20\x20\x20\x20\x20\x20\x20\x20\x20\x20\x20\x20\x20\x20\x20\x20\x20\x20\x20\x20\x20\x20\x20\x20\x20\x20\x0a";

fn stub_parse(_input: &str) -> Result<Vec<parse::Entry>, ParseHeaderError> {
    Ok(vec![
        parse::Entry::Descr(TypeDescriptor::new(Endian::Little, Type::F8)),
        parse::Entry::FortranOrder(false),
        parse::Entry::Shape(vec![2]),
    ])
}
fn stub_from_utf8(v: &[u8]) -> Result<&str, core::str::Utf8Error> {
    Ok(unsafe { core::str::from_utf8_unchecked(v) })
}

#[kani::proof]
#[kani::unwind(12)]
#[kani::stub(crate::array::npy::header::parse::parse_header_dict, stub_parse)]
#[kani::stub(core::str::from_utf8, stub_from_utf8)]
fn header_read_truncated() {
    let t: usize = kani::any();
    kani::assume(t < 128);
    let mut r = &HDR[..t];
    let res = Header::read(&mut r);
    assert!(res.is_err());
    kani::cover!(t > 20, "inside dict");
    kani::cover!(t < 6, "inside magic");
    core::mem::forget(res);
}

#[kani::proof]
#[kani::unwind(6)]
fn payload_truncated_f8() {
    let bytes: [u8; 16] = kani::any();
    let t: usize = kani::any();
    kani::assume(t <= 16);
    let mut r = &bytes[..t];
    let res = TypeDescriptor::new(Endian::Little, Type::F8).read(&mut r);
    match res {
        Ok(v) => {
            assert!(t % 8 == 0 && v.len() == t / 8);
            if t >= 8 { assert!(v[0].to_bits() == u64::from_le_bytes([bytes[0],bytes[1],bytes[2],bytes[3],bytes[4],bytes[5],bytes[6],bytes[7]])); }
            let a = crate::array::Array::new(v, crate::array::Shape(vec![2]));
            assert!(a.is_ok() == (t == 16));
            core::mem::forget(a);
        }
        Err(e) => { assert!(t % 8 != 0); core::mem::forget(e); }
    }
}

#[kani::proof]
#[kani::unwind(20)]
#[kani::stub(crate::array::npy::header::parse::parse_header_dict, stub_parse)]
#[kani::stub(core::str::from_utf8, stub_from_utf8)]
fn read_array_truncated_or_extended() {
    let mut file = [0u8; 148];
    let tail: [u8; 20] = kani::any();
    file[..128].copy_from_slice(&HDR[..]);
    file[128..].copy_from_slice(&tail[..]);
    let t: usize = kani::any();
    kani::assume(t <= 148);
    let mut r = &file[..t];
    let res = crate::array::npy::read_array(&mut r);
    assert!(res.is_ok() == (t == 144));
    kani::cover!(t > 144, "extended");
    kani::cover!(t > 128 && t < 144, "payload cut");
    kani::cover!(t < 128, "header cut");
    core::mem::forget(res);
}

#[kani::proof]
#[kani::unwind(64)]
fn nom_constant_dict() {
    let r = HeaderDict::from_str("{'descr': '<f8', 'fortran_order': False, 'shape': (2,), }");
    match r {
        Ok(d) => { assert!(!d.fortran_order && d.shape.len() == 1 && d.shape[0] == 2); core::mem::forget(d); }
        Err(e) => { core::mem::forget(e); assert!(false); }
    }
}

#[kani::proof]
#[kani::unwind(64)]
fn nom_quote_symbolic() {
    let mut b = *b"{'descr': '<f8', 'fortran_order': False, 'shape': (2,), }";
    let q: u8 = kani::any();
    kani::assume(q == b'\'' || q == b'"');
    b[1] = q; b[7] = q;
    let s = unsafe { core::str::from_utf8_unchecked(&b) };
    let r = HeaderDict::from_str(s);
    assert!(r.is_ok());
    core::mem::forget(r);
}
