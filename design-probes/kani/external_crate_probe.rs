#![allow(unused)]
use sfs_core::array::{Array, Axis, Shape};
use sfs_core::Scs;
use sfs_core::input::{genotype, ReadStatus, Sample, sample, site};
use noodles_vcf::record::genotypes::sample::value::genotype::{allele::Phasing, Allele, Genotype as VcfGenotype};

#[cfg(kani)]
mod h {
    use super::*;

    // A: marginalize {0,2} of [2,3,2] in both orders, small ints
    #[kani::proof]
    #[kani::unwind(14)]
    fn a_marg_232() {
        let xi: [u8; 12] = kani::any();
        let mut x = [0.0f64; 12];
        for i in 0..12 { kani::assume(xi[i] < 8); x[i] = xi[i] as f64; }
        let scs = Scs::new(x.to_vec(), [2, 3, 2]).unwrap();
        let order: bool = kani::any();
        let axes = if order { [Axis(0), Axis(2)] } else { [Axis(2), Axis(0)] };
        let m = scs.marginalize(&axes).unwrap();
        assert!(m.shape().as_ref() == [3]);
        let out = m.inner().as_slice();
        for j in 0..3usize {
            let mut t = 0u32;
            for a in 0..2usize { for c in 0..2usize { t += xi[a * 6 + j * 2 + c] as u32; } }
            assert!(out[j] == t as f64);
        }
    }

    // B: project [3]->[2] real pmf
    #[kani::proof]
    #[kani::unwind(173)]
    fn b_project_real() {
        let scs = Scs::new(vec![1.0, 2.0, 4.0], [3]).unwrap();
        let p = scs.project(2usize).unwrap();
        let out = p.inner().as_slice();
        // exact: [1*1 + 2*.5, 2*.5 + 4*1] = [2, 5]
        assert!((out[0] - 2.0).abs() < 1e-9);
        assert!((out[1] - 5.0).abs() < 1e-9);
    }

    // F: genotype conversion symbolic
    #[kani::proof]
    #[kani::unwind(4)]
    fn f_genotype() {
        let a: Option<usize> = kani::any();
        let b: Option<usize> = kani::any();
        let ph = if kani::any() { Phasing::Phased } else { Phasing::Unphased };
        let g = VcfGenotype::try_from(vec![Allele::new(a, Phasing::Unphased), Allele::new(b, ph)]).unwrap();
        let r = genotype::Result::from(Some(g));
        match (a, b) {
            (Some(a), Some(b)) if a <= 1 && b <= 1 => {
                let expect = genotype::Genotype::try_from_raw(a + b).unwrap();
                assert!(r == genotype::Result::Genotype(expect));
            }
            (Some(_), Some(_)) => assert!(r == genotype::Result::Skipped(genotype::Skipped::Multiallelic)),
            _ => assert!(r == genotype::Result::Skipped(genotype::Skipped::Missing)),
        }
    }

    // G: stats on degenerate shapes
    #[kani::proof]
    #[kani::unwind(8)]
    fn g_fst_degenerate() {
        let a: usize = kani::any();
        let b: usize = kani::any();
        kani::assume(a >= 1 && a <= 2 && b >= 1 && b <= 2);
        let scs = Scs::from_zeros(vec![a, b]);
        let _ = scs.into_normalized().fst();
    }

    #[kani::proof]
    #[kani::unwind(8)]
    fn g_fuli_degenerate() {
        let a: usize = kani::any();
        kani::assume(a >= 1 && a <= 4);
        let scs = Scs::from_zeros(vec![a]);
        let _ = scs.d_fu_li();
    }

    // C: npy roundtrip bits, shape [2], symbolic f64
    #[kani::proof]
    #[kani::unwind(130)]
    fn c_npy_roundtrip() {
        let x: [f64; 2] = kani::any();
        let arr = Array::new(x.to_vec(), [2usize]).unwrap();
        let mut buf = Vec::new();
        arr.write_npy(&mut buf).unwrap();
        assert!(buf.len() == 128 + 16);
        let back = Array::read_npy(&buf[..]).unwrap();
        let out = back.as_slice();
        assert!(out[0].to_bits() == x[0].to_bits());
        assert!(out[1].to_bits() == x[1].to_bits());
    }

    // H: f64 parse concrete
    #[kani::proof]
    #[kani::unwind(20)]
    fn h_parse_f64() {
        let v: f64 = "1.5".parse().unwrap();
        assert!(v == 1.5);
    }
}
