// child of crate::spectrum
use super::*;
use crate::array::Axis;

// deterministic stand-in for the pmf: pure function of its four arguments, small exact values
fn pmf_stub(size: u64, successes: u64, draws: u64, observed: u64) -> f64 {
    // injective enough on the small grid: all args < 4
    ((size * 1 + successes * 2 + draws * 3 + observed * 5) % 4) as f64
}

fn small(xi: u8) -> f64 {
    xi as f64
}

// project [3,2] -> [2,2] : structure check modulo pmf
#[kani::proof]
#[kani::unwind(8)]
#[kani::stub(crate::utils::hypergeometric_pmf, pmf_stub)]
fn project_32_22_structure() {
    let xi: [u8; 6] = kani::any();
    let mut x = [0.0f64; 6];
    for i in 0..6 {
        kani::assume(xi[i] < 4);
        x[i] = small(xi[i]);
    }
    let scs = Scs::new(x.to_vec(), [3, 2]).unwrap();
    let p = scs.project([2usize, 2]).unwrap();
    let out = p.inner().as_slice();
    assert!(p.shape().len() == 2 && p.shape()[0] == 2 && p.shape()[1] == 2);
    for a in 0..2u64 {
        for b in 0..2u64 {
            let mut t = 0u64;
            for k0 in 0..3u64 {
                for k1 in 0..2u64 {
                    let h0 = (2 * 1 + k0 * 2 + 1 * 3 + a * 5) % 4;
                    let h1 = (1 * 1 + k1 * 2 + 1 * 3 + b * 5) % 4;
                    t += (xi[(k0 * 2 + k1) as usize] as u64) * h0 * h1;
                }
            }
            assert!(out[(a * 2 + b) as usize] == t as f64);
        }
    }
}

// marginalize [2,3,2] removing {0,2} in order given / reversed, each concrete
fn marg_check(axes: [Axis; 2]) {
    let xi: [u8; 12] = kani::any();
    let mut x = [0.0f64; 12];
    for i in 0..12 {
        kani::assume(xi[i] < 8);
        x[i] = small(xi[i]);
    }
    let scs = Scs::new(x.to_vec(), [2, 3, 2]).unwrap();
    let m = scs.marginalize(&axes).unwrap();
    assert!(m.shape().len() == 1 && m.shape()[0] == 3);
    let out = m.inner().as_slice();
    for j in 0..3usize {
        let mut t = 0u32;
        for a in 0..2usize {
            for c in 0..2usize {
                t += xi[a * 6 + j * 2 + c] as u32;
            }
        }
        assert!(out[j] == t as f64);
    }
}

#[kani::proof]
#[kani::unwind(14)]
fn marg_232_02() {
    marg_check([Axis(0), Axis(2)]);
}

#[kani::proof]
#[kani::unwind(14)]
fn marg_232_20() {
    marg_check([Axis(2), Axis(0)]);
}

#[kani::proof]
#[kani::unwind(6)]
fn sum_22_axis0() {
    let xi: [u8; 4] = kani::any();
    let mut x = [0.0f64; 4];
    for i in 0..4 {
        kani::assume(xi[i] < 8);
        x[i] = small(xi[i]);
    }
    let arr = Array::new(x.to_vec(), [2usize, 2]).unwrap();
    let s = arr.sum(Axis(0));
    let out = s.as_slice();
    assert!(out[0] == (xi[0] as u32 + xi[2] as u32) as f64);
    assert!(out[1] == (xi[1] as u32 + xi[3] as u32) as f64);
}

#[kani::proof]
#[kani::unwind(14)]
fn sum_232_axis1() {
    let xi: [u8; 12] = kani::any();
    let mut x = [0.0f64; 12];
    for i in 0..12 {
        kani::assume(xi[i] < 8);
        x[i] = small(xi[i]);
    }
    let arr = Array::new(x.to_vec(), [2usize, 3, 2]).unwrap();
    let s = arr.sum(Axis(1));
    let out = s.as_slice();
    for a in 0..2usize { for c in 0..2usize {
        let t = xi[a*6 + c] as u32 + xi[a*6 + 2 + c] as u32 + xi[a*6 + 4 + c] as u32;
        assert!(out[a*2 + c] == t as f64);
    }}
}

#[kani::proof]
#[kani::unwind(14)]
fn marg_232_1only() {
    let xi: [u8; 12] = kani::any();
    let mut x = [0.0f64; 12];
    for i in 0..12 {
        kani::assume(xi[i] < 8);
        x[i] = small(xi[i]);
    }
    let scs = Scs::new(x.to_vec(), [2, 3, 2]).unwrap();
    let m = scs.marginalize(&[Axis(1)]).unwrap();
    let out = m.inner().as_slice();
    for a in 0..2usize { for c in 0..2usize {
        let t = xi[a*6 + c] as u32 + xi[a*6 + 2 + c] as u32 + xi[a*6 + 4 + c] as u32;
        assert!(out[a*2 + c] == t as f64);
    }}
}

#[kani::proof]
#[kani::unwind(14)]
fn marg_222_01() {
    let xi: [u8; 8] = kani::any();
    let mut x = [0.0f64; 8];
    for i in 0..8 {
        kani::assume(xi[i] < 8);
        x[i] = small(xi[i]);
    }
    let scs = Scs::new(x.to_vec(), [2, 2, 2]).unwrap();
    let m = scs.marginalize(&[Axis(0), Axis(1)]).unwrap();
    let out = m.inner().as_slice();
    for c in 0..2usize {
        let t = xi[c] as u32 + xi[2 + c] as u32 + xi[4 + c] as u32 + xi[6 + c] as u32;
        assert!(out[c] == t as f64);
    }
}

#[kani::proof]
#[kani::unwind(14)]
fn marg_222_02() {
    let xi: [u8; 8] = kani::any();
    let mut x = [0.0f64; 8];
    for i in 0..8 { kani::assume(xi[i] < 8); x[i] = small(xi[i]); }
    let scs = Scs::new(x.to_vec(), [2, 2, 2]).unwrap();
    let m = scs.marginalize(&[Axis(0), Axis(2)]).unwrap();
    let out = m.inner().as_slice();
    for b in 0..2usize {
        let t = xi[b*2] as u32 + xi[b*2+1] as u32 + xi[4+b*2] as u32 + xi[4+b*2+1] as u32;
        assert!(out[b] == t as f64);
    }
}

#[kani::proof]
#[kani::unwind(14)]
fn marg_232_01() {
    let xi: [u8; 12] = kani::any();
    let mut x = [0.0f64; 12];
    for i in 0..12 { kani::assume(xi[i] < 8); x[i] = small(xi[i]); }
    let scs = Scs::new(x.to_vec(), [2, 3, 2]).unwrap();
    let m = scs.marginalize(&[Axis(0), Axis(1)]).unwrap();
    let out = m.inner().as_slice();
    for c in 0..2usize {
        let mut t = 0u32;
        for a in 0..2usize { for b in 0..3usize { t += xi[a*6 + b*2 + c] as u32; } }
        assert!(out[c] == t as f64);
    }
}

#[kani::proof]
#[kani::unwind(6)]
fn sum_22_axis1() {
    let xi: [u8; 4] = kani::any();
    let mut x = [0.0f64; 4];
    for i in 0..4 { kani::assume(xi[i] < 8); x[i] = small(xi[i]); }
    let arr = Array::new(x.to_vec(), [2usize, 2]).unwrap();
    let s = arr.sum(Axis(1));
    let out = s.as_slice();
    assert!(out[0] == (xi[0] as u32 + xi[1] as u32) as f64);
    assert!(out[1] == (xi[2] as u32 + xi[3] as u32) as f64);
}

#[kani::proof]
#[kani::unwind(6)]
fn sum_22_axis1_concrete() {
    let arr = Array::new(vec![1.0, 2.0, 4.0, 8.0], [2usize, 2]).unwrap();
    let s = arr.sum(Axis(1));
    let out = s.as_slice();
    assert!(out[0] == 3.0);
    assert!(out[1] == 12.0);
}
