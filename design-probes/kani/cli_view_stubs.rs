// child of crate::view (sfs-cli)
#![allow(unsafe_code)]
use super::*;
use sfs_core::{spectrum::State, Scs, Spectrum};
use std::io;

static mut IN_VALUES: [f64; 12] = [0.0; 12];
static mut OUT_VALUES: [f64; 12] = [0.0; 12];
static mut OUT_LEN: usize = 0;
static mut OUT_SHAPE: [usize; 3] = [0; 3];
static mut OUT_DIMS: usize = 0;

fn stub_input_new(_input: Option<PathBuf>) -> io::Result<Input> {
    Ok(Input::Stdin)
}

fn stub_read(_b: spectrum::io::read::Builder) -> io::Result<Scs> {
    let v = unsafe { IN_VALUES.to_vec() };
    Ok(Scs::new(v, [2, 3, 2]).unwrap())
}

fn stub_write<P: AsRef<std::path::Path>, S: State>(
    _b: spectrum::io::write::Builder,
    _path: Option<P>,
    spectrum: &Spectrum<S>,
) -> io::Result<()> {
    unsafe {
        let s = spectrum.inner().as_slice();
        OUT_LEN = s.len();
        for i in 0..s.len() {
            OUT_VALUES[i] = s[i];
        }
        OUT_DIMS = spectrum.shape().len();
        for i in 0..spectrum.shape().len() {
            OUT_SHAPE[i] = spectrum.shape()[i];
        }
    }
    Ok(())
}

#[kani::proof]
#[kani::unwind(14)]
#[kani::stub(sfs_core::Input::new, stub_input_new)]
#[kani::stub(sfs_core::spectrum::io::read::Builder::read, stub_read)]
#[kani::stub(sfs_core::spectrum::io::write::Builder::write_to_path_or_stdout, stub_write)]
fn view_marginalize_mask_normalize() {
    let xi: [u8; 12] = kani::any();
    for i in 0..12 {
        kani::assume(xi[i] < 4);
        unsafe { IN_VALUES[i] = xi[i] as f64 };
    }
    let mask: bool = kani::any();
    let v = View {
        input: None,
        output: None,
        output_format: Format::Text,
        marginalize: Some(Marginalize { remove: None, keep: Some(vec![1]) }),
        mask_monomorphic: mask,
        normalize: false,
        project: None,
        precision: 6,
    };
    let res = v.run();
    let ok = res.is_ok();
    core::mem::forget(res);
    assert!(ok);
    unsafe {
        assert!(OUT_DIMS == 1 && OUT_SHAPE[0] == 3 && OUT_LEN == 3);
        for j in 0..3usize {
            let mut t = 0u32;
            for a in 0..2usize {
                for c in 0..2usize {
                    t += xi[a * 6 + j * 2 + c] as u32;
                }
            }
            let expect = if mask && (j == 0 || j == 2) { 0 } else { t };
            assert!(OUT_VALUES[j] == expect as f64);
        }
    }
}
