#!/bin/bash
# usage: run2.sh pkg harness timeout targetdir [extra]
pkg=$1; h=$2; to=$3; td=$4; shift 4
cd /tmp/inj/work2
start=$(date +%s.%N)
CARGO_NET_OFFLINE=true timeout $to cargo kani -p $pkg -Z stubbing --harness $h --target-dir $td "$@" > /tmp/inj/logs/$h.log 2>&1
rc=$?
end=$(date +%s.%N)
echo "=== $h rc=$rc wall=$(echo "$end - $start" | bc)"
grep -a -B1 -A3 "Status: FAILURE" /tmp/inj/logs/$h.log | grep -a -E "Description|Location" | grep -avE "rust_alloc_error_handler|entered unreachable|alloc.rs:602|raw_vec/mod.rs|strerror" | head -10
grep -a -E "^VERIFICATION|^Verification Time|^error|Runtime Solver|Runtime Symex|SATISFIED|UNSATISFIABLE|Status: UNREACHABLE" /tmp/inj/logs/$h.log | sort | uniq -c | head
