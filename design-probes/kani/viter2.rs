// child of crate::array::view::iter
use super::*;
use crate::array::{Axis, Shape};
use crate::array::shape::Strides;

// one inductive step of view::Iter::next from an arbitrary live state, rank-2 view of a rank-3 array
#[kani::proof]
#[kani::unwind(6)]
fn view_iter_step_rank2() {
    let n: [usize; 3] = kani::any();
    kani::assume(n[0] >= 1 && n[0] <= 4 && n[1] >= 1 && n[1] <= 4 && n[2] >= 1 && n[2] <= 4);
    let axis: usize = kani::any();
    kani::assume(axis < 3);
    let pos: usize = kani::any();
    kani::assume(pos < n[axis]);
    let shape = Shape(vec![n[0], n[1], n[2]]);
    let strides = Strides(vec![n[1] * n[2], n[2], 1]);
    let data: [u8; 64] = kani::any();
    let total_all = n[0] * n[1] * n[2];
    let start = pos * strides.0[axis];
    let view = View::new_unchecked(&data[start..total_all], shape.remove_axis(Axis(axis)), strides.remove_axis(Axis(axis)));
    // remaining axes
    let (r0, r1) = if axis == 0 { (1, 2) } else if axis == 1 { (0, 2) } else { (0, 1) };
    let (m0, m1) = (n[r0], n[r1]);
    let (s0, s1) = (strides.0[r0], strides.0[r1]);
    let total = m0 * m1;
    // arbitrary live state after k >= 1 items
    let k: usize = kani::any();
    kani::assume(k >= 1 && k <= total);
    let c0 = (k - 1) / m1;
    let c1 = (k - 1) % m1;
    let mut it = Iter { view, coords: vec![c0, c1], offset: c0 * s0 + c1 * s1, index: k };
    assert!(it.len() == total - k);
    let got = it.next();
    if k < total {
        let d0 = k / m1;
        let d1 = k % m1;
        let exp = &data[start + d0 * s0 + d1 * s1];
        assert!(match got { Some(p) => core::ptr::eq(p, exp), None => false });
        assert!(it.index == k + 1 && it.coords[0] == d0 && it.coords[1] == d1 && it.offset == d0 * s0 + d1 * s1);
        kani::cover!(d1 == 0 && d0 > 0, "carry");
    } else {
        assert!(got.is_none());
        // exhausted must be absorbing
        assert!(it.next().is_none());
        assert!(it.len() == 0);
        kani::cover!(true, "exhausted");
    }
    core::mem::forget(it);
}
