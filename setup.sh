#!/bin/bash
# Nothing to build: the framework is Python + Rust harness sources; every check rebuilds what it
# needs from /repo's working tree in a scratch directory.  This only verifies the tool chain.
set -e
cd "$(dirname "$0")"
export CARGO_NET_OFFLINE=true
cargo kani --version >/dev/null
z3 --version >/dev/null
cvc5 --version >/dev/null 2>&1 || true
python3 -c "import json, sys; sys.path.insert(0, 'lib'); import kv; hs = kv.discover(); print(len(hs), 'harnesses')"
