#!/usr/bin/env python3
"""Regenerates the per-case harness lists between //@@BEGIN X@@ ... //@@END X@@ markers.
(The harness sources are committed; this only saves typing.)"""
import math, os, re, itertools
HERE = os.path.dirname(os.path.abspath(__file__))

def sid(sh): return "x".join(map(str, sh))
def lit(sh): return "[" + ", ".join(map(str, sh)) + "]"
def nos(sh): return str(list(sh)).replace(" ", "")

def fill(path, tag, text):
    s = open(path).read()
    a = s.index(f"//@@BEGIN {tag}@@"); b = s.index(f"//@@END {tag}@@")
    s = s[:a] + f"//@@BEGIN {tag}@@\n" + text + s[b:]
    open(path, "w").write(s)

def spectrum():
    p = os.path.join(HERE, "core/spectrum.rs")
    # ---- fold
    quick = [[1],[2],[4],[5],[7],[1,1],[2,2],[2,3],[3,3],[2,4],[3,4],[1,3],[2,1,2],[1,2,3],[2,3,2],[2,2,2],[2,2,2,2]]
    thorough = [[3],[6],[3,5],[5,3],[4,4],[2,7],[3,3,3],[3,2,4],[1,2,1,3],[2,3,2,2],[3,1,2,2]]
    t = ""
    for sh, tier in [(s, "quick") for s in quick] + [(s, "thorough") for s in thorough]:
        n = math.prod(sh)
        t += f"// @harness props=C05 tier={tier} group=f64 bounds=shape={nos(sh)},cells=0..7,fill={{nan,0,-1,inf}} timeout=1200\n"
        t += f"fold_h!(fold_{sid(sh)}, {len(sh)}, {n}, {lit(sh)}, {max(n, len(sh)) + 3});\n\n"
    fill(p, "FOLD_CASES", t)
    t = ""
    for sh, tier in [([4],"quick"),([5],"quick"),([2,3],"quick"),([1,3],"quick"),([3,3],"thorough"),([2,2,2],"thorough"),([2,3,2],"thorough"),([3,4],"thorough")]:
        n = math.prod(sh)
        t += f"// @harness props=C05 tier={tier} group=f64 bounds=shape={nos(sh)},cells=0..3,fill=0;mass,idempotence,polarity timeout=1200\n"
        t += f"fold_laws_h!(fold_laws_{sid(sh)}, {len(sh)}, {n}, {lit(sh)}, {max(n, len(sh)) + 3});\n\n"
    fill(p, "FOLD_LAWS_CASES", t)
    # ---- marginalize
    cases = []
    def add(sh, axes, tier): cases.append((sh, axes, tier))
    for ax in [[0],[1]]: add([2,3], ax, "quick")
    for ax in [[0],[1],[2],[0,1],[1,0],[1,2],[2,1],[0,2],[2,0]]: add([2,3,2], ax, "quick")
    for ax in [[0],[1],[2],[0,2],[2,1]]: add([1,2,3], ax, "quick")
    for ax in [[1],[2],[1,2],[2,1]]: add([2,3,1], ax, "quick")
    add([3,1], [0], "quick"); add([3,1], [1], "quick"); add([2,2,1,1], [1], "quick"); add([2,2,1,1], [3,1], "thorough")
    for ax in [[1,3],[3,1],[0,1,2],[2,0,1],[3,2,1],[0,3,1],[1,2,3],[3,0,2],[1,3,2],[0,2,1],[2,3,1]]: add([2,2,2,2], ax, "thorough")
    # three named axes in every order, on a cheap shape with unequal lengths (the renumbering case)
    for ax in itertools.permutations([1,2,3], 3): add([2,1,3,1], list(ax), "quick")
    for ax in itertools.permutations([0,1,3], 3): add([2,1,3,1], list(ax), "quick")
    for ax in [[0,2],[2,0],[0,3,2],[2,3,0],[3,0,2]]: add([2,1,3,1], ax, "quick")
    for k in (1,2):
        for ax in itertools.permutations(range(3), k): add([3,2,4], list(ax), "thorough")
    for ax in [[0,4],[4,2,0],[3,1]]: add([2,1,2,2,2], ax, "thorough")
    # four named axes out of five, unsorted (renumbering after two or more earlier removals), cheap unequal shape
    for ax in [[0,1,4,3],[0,1,3,2],[4,3,1,0],[2,4,1,3]]: add([2,1,2,1,3], ax, "quick")
    for ax in [[3,4,0,1],[1,0,3,4],[0,1,2,3]]: add([2,1,2,1,3], ax, "thorough")
    t = ""
    seen = set()
    for sh, ax, tier in cases:
        name = f"marginalize_{sid(sh)}_rm{''.join(map(str, ax))}"
        if name in seen: continue
        seen.add(name)
        n = math.prod(sh); r = len(sh); k = len(ax); v = r - k
        m = math.prod(sh[j] for j in range(r) if j not in ax)
        t += f"// @harness props=C04 tier={tier} group=f64 bounds=shape={nos(sh)},remove={nos(ax)}(in-this-order),cells=0..7 timeout=1200\n"
        t += f"marginalize_h!({name}, {r}, {n}, {k}, {v}, {m}, {lit(sh)}, {lit(ax)}, {max(n, r) + 3});\n\n"
    fill(p, "MARGINALIZE_CASES", t)
    t = ""
    for k in range(0, 6):
        tier = "quick" if k <= 4 else "thorough"
        t += f"// @harness props=C04,C17 tier={tier} group=f64 bounds=shape=[1,1,1,1],axis-list-length={k},entries=0..5 timeout=1200\n"
        t += f"marginalize_validation_h!(marginalize_validation_len{k}, {k}, {10});\n\n"
    fill(p, "MARGINALIZE_VALIDATION_CASES", t)

if __name__ == "__main__":
    spectrum()

def project_cases():
    p = os.path.join(HERE, "core/spectrum.rs")
    cases = [([3],[1],"quick"),([3],[2],"quick"),([3],[3],"quick"),([5],[3],"quick"),([7],[4],"thorough"),([2],[1],"quick"),
             ([3,2],[2,2],"quick"),([2,3],[2,2],"quick"),([3,3],[2,3],"thorough"),([3,3],[1,1],"quick"),([3,3],[3,3],"thorough"),
             ([2,2,2],[2,1,2],"quick"),([2,3,2],[2,2,1],"thorough"),([3,2,3],[2,2,2],"thorough"),([2,2,2,2],[1,2,1,2],"thorough")]
    t = ""
    for f, to, tier in cases:
        n = math.prod(f); m = math.prod(to); r = len(f)
        t += f"// @harness props=C03,C02 tier={tier} group=f64 bounds=source={nos(f)},target={nos(to)},cells=0..3,pmf=table-stub timeout=1800\n"
        t += f"project_h!(project_structure_{sid(f)}_to_{sid(to)}, {r}, {n}, {m}, {lit(f)}, {lit(to)}, {max(n, m, r) + 3});\n\n"
    fill(p, "PROJECT_CASES", t)

def decoders():
    p = os.path.join(HERE, "core/npy_header.rs")
    t = ""
    for e, en in (("Little", "l"), ("Big", "b")):
        for ty in ["F4","F8","I1","I2","I4","I8","U1","U2","U4","U8"]:
            t += f"// @harness props=C15 tier=quick group=f64 bounds=dtype={'<' if e=='Little' else '>'}{ty.lower()},two-values-of-symbolic-bytes(all-bit-patterns) timeout=900\n"
            t += f"decoder_h!(decoder_{en}{ty.lower()}, {e}, {ty});\n\n"
    fill(p, "DECODER_CASES", t)

def stat_grid():
    p = os.path.join(HERE, "core/spectrum.rs")
    t = ""
    # (shape, tier, role): role 'ok' must pass; 'degenerate' = recorded known findings (D7)
    cases = [([4],"quick","ok"),([5],"quick","ok"),([3],"quick","degenerate"),([2],"quick","degenerate"),([1],"quick","degenerate"),([0],"quick","degenerate"),
             ([2,2],"quick","ok"),([2,3],"quick","ok"),([3,3],"quick","ok"),([4,2],"thorough","ok"),([1,3],"quick","degenerate"),([3,1],"quick","degenerate"),([1,1],"thorough","degenerate"),([0,2],"quick","degenerate"),
             ([2,2,2],"quick","ok"),([1,2,2],"quick","ok"),([3,3,1],"quick","ok"),([3,3,2],"thorough","ok"),([3,3,1,1],"thorough","ok"),([2,1,3],"thorough","ok"),([1,1,1],"thorough","ok"),
             ([2,2,2,2],"thorough","ok"),([1,2,1,2],"quick","ok"),([1,1,1,1],"thorough","ok"),([2,1,1,1,1],"thorough","ok")]
    for sh, tier, role in cases:
        n = math.prod(sh); r = len(sh)
        pre = "stat_grid" if role == "ok" else "stat_degenerate"
        t += f"// @harness props=C17 tier={tier} group=f64 role={role} bounds=shape={nos(sh)},cells=0..3,all-14-statistics timeout=1800\n"
        t += f"stat_grid_h!({pre}_{sid(sh)}, {r}, {n}, {lit(sh)}, {max(n, 17) + 3});\n\n"
    fill(p, "STAT_GRID_CASES", t)

def site_reader():
    p = os.path.join(HERE, "core/site_reader.rs")
    t = ""
    def assigns(d):
        out = []
        for a in itertools.product(range(d + 1), repeat=3):
            if all(any(x == j + 1 for x in a) for j in range(d)):
                out.append(list(a))
        return out
    quick_counts = {1: [[1,1,1],[0,1,1],[1,0,0]], 2: [[1,2,1],[2,0,1],[1,1,2],[2,1,0]], 3: [[1,2,3],[3,1,2]]}
    for d in (1, 2, 3):
        for a in assigns(d):
            tier = "quick" if a in quick_counts[d] else "thorough"
            nm = "".join(map(str, a))
            t += f"// @harness props=C01,C08,C11,C10 tier={tier} bounds=populations={d},samples=3,assignment={nos(a)}(0=unselected),genotypes=any-of-6-results,dirty-pre-state timeout=1200\n"
            t += f"stubs_h!(read_site_counts_d{d}_a{nm}, stub_npop_{d}, 8, counts_case::<{d}>({lit(a)}));\n\n"
    quick_cls = {1: [[1,1,1],[0,1,1]], 2: [[1,2,1],[2,0,1],[1,1,2]], 3: [[1,2,3]]}
    for d in (1, 2, 3):
        for a in assigns(d):
            for pat in range(8):
                # patterns that differ only in unselected samples are redundant
                if any(a[i] == 0 and not (pat >> i) & 1 for i in range(3)): continue
                # no selected sample called + a projection: CBMC runs out of memory (array post-processing);
                # that record class is covered without projection by read_site_counts_*
                if not any(a[i] != 0 and (pat >> i) & 1 for i in range(3)): continue
                tier = "quick" if a in quick_cls[d] else "thorough"
                nm = "".join(map(str, a))
                t += f"// @harness props=C02,C11,C10 tier={tier} bounds=populations={d},samples=3,assignment={nos(a)},called-pattern={pat:03b},target=symbolic-0..2*size,allele-counts=symbolic,dirty-pre-state timeout=900\n"
                t += f"stubs_h!(read_site_classify_d{d}_a{nm}_p{pat}, stub_npop_{d}, 8, classify_case::<{d}>({lit(a)}, {pat}));\n\n"
    fill(p, "SITE_CASES", t)

if __name__ == "__main__":
    site_reader()
    project_cases()
    stat_grid()
    decoders()
