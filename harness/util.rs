// Shared helpers for the Kani harness modules (included by `#[path = "../util.rs"] mod util;`).
#![allow(dead_code)]

/// a solver-chosen case index in 0..n
pub fn choice(n: usize) -> usize {
    let c: usize = kani::any();
    kani::assume(c < n);
    c
}

/// N solver-chosen small integers 0..bound (exclusive)
pub fn small<const N: usize>(bound: u8) -> [u8; N] {
    let x: [u8; N] = kani::any();
    let mut i = 0;
    while i < N {
        kani::assume(x[i] < bound);
        i += 1;
    }
    x
}

/// the cells as f64 (exact: small integers)
pub fn as_f64<const N: usize>(x: &[u8; N]) -> [f64; N] {
    let mut y = [0.0f64; N];
    let mut i = 0;
    while i < N {
        y[i] = x[i] as f64;
        i += 1;
    }
    y
}

/// row-major multi-index of flat position `p` in `shape` (reference model, most significant axis first)
pub fn unrank<const R: usize>(shape: &[usize; R], mut p: usize) -> [usize; R] {
    let mut idx = [0usize; R];
    let mut j = R;
    while j > 0 {
        j -= 1;
        idx[j] = p % shape[j];
        p /= shape[j];
    }
    idx
}

/// row-major flat position of a multi-index (Horner form)
pub fn rank<const R: usize>(shape: &[usize; R], idx: &[usize; R]) -> usize {
    let mut p = 0usize;
    let mut j = 0;
    while j < R {
        p = p * shape[j] + idx[j];
        j += 1;
    }
    p
}

pub fn product<const R: usize>(shape: &[usize; R]) -> usize {
    let mut p = 1usize;
    let mut j = 0;
    while j < R {
        p *= shape[j];
        j += 1;
    }
    p
}

/// |a-b| <= 1e-9 (|a|+|b|+1)
pub fn close(a: f64, b: f64) -> bool {
    let d = a - b;
    let d = if d < 0.0 { -d } else { d };
    let aa = if a < 0.0 { -a } else { a };
    let bb = if b < 0.0 { -b } else { b };
    d <= 1e-9 * (aa + bb + 1.0)
}
