// Child module of crate::array::npy.
// @inject crate=sfs-core file=core/src/array/npy.rs mod=kv_npy
#![allow(unused_imports)]
use super::*;
use std::io::{self, Write};

/// Header::write is stubbed out in the value-loop harnesses (its text is std::fmt: not encodable;
/// its padding arithmetic is decided at MIR level, see C15)
fn stub_header_write<W: io::Write>(_h: &Header, _w: &mut W) -> io::Result<()> {
    Ok(())
}

/// a Write that accepts at most `per_call` bytes per write() and fails once `fail_at` bytes were taken
struct Short {
    buf: [u8; 32],
    len: usize,
    per_call: usize,
    fail_at: usize,
    /// bytes swallowed before anything is counted: 0 under Kani (Header::write is stubbed out);
    /// in the native replay build (no stubs) the length of the real header
    skip: usize,
}

#[cfg(not(kv_replay))]
fn header_bytes(_arr: &Array<f64>) -> usize {
    0
}
#[cfg(kv_replay)]
fn header_bytes(arr: &Array<f64>) -> usize {
    let mut all = Vec::new();
    write_array(&mut all, arr).unwrap();
    all.len() - 8 * arr.elements()
}

impl Write for Short {
    fn write(&mut self, b: &[u8]) -> io::Result<usize> {
        if self.skip > 0 {
            let n = if b.len() < self.skip { b.len() } else { self.skip };
            self.skip -= n;
            return Ok(n);
        }
        if self.len >= self.fail_at {
            return Err(io::Error::from_raw_os_error(5));
        }
        let mut n = if b.len() < self.per_call { b.len() } else { self.per_call };
        if self.fail_at - self.len < n {
            n = self.fail_at - self.len;
        }
        self.buf[self.len..self.len + n].copy_from_slice(&b[..n]);
        self.len += n;
        Ok(n)
    }
    fn flush(&mut self) -> io::Result<()> {
        Ok(())
    }
}

fn stub_not_interrupted(_e: &io::Error) -> bool {
    false
}

/// value bytes: prod(shape) little-endian doubles in C order, for every bit pattern (no arithmetic
/// touches them), through a writer that takes `per_call` bytes at a time.
fn values_case(per_call: usize) {
    let bits: [u64; 3] = kani::any();
    let x = [f64::from_bits(bits[0]), f64::from_bits(bits[1]), f64::from_bits(bits[2])];
    let arr = Array::new(x.to_vec(), vec![3usize]).unwrap();
    let mut w = Short {
        buf: [0; 32],
        len: 0,
        per_call,
        fail_at: usize::MAX,
        skip: header_bytes(&arr),
    };
    let r = write_array(&mut w, &arr);
    assert!(r.is_ok());
    assert!(w.len == 24);
    let mut i = 0;
    while i < 3 {
        let mut k = 0;
        while k < 8 {
            assert!(w.buf[8 * i + k] == (bits[i] >> (8 * k)) as u8);
            k += 1;
        }
        i += 1;
    }
    kani::cover!(true, "reached end");
    core::mem::forget(r);
    core::mem::forget(arr);
}

macro_rules! values_h {
    ($name:ident, $per:expr, $unw:literal) => {
        #[kani::proof]
        #[kani::unwind($unw)]
        #[kani::stub(header::Header::write, stub_header_write)]
        #[kani::stub(std::io::Error::is_interrupted, stub_not_interrupted)]
        fn $name() {
            values_case($per)
        }
    };
}

// @harness props=C07,C15,C18 tier=quick group=f64 bounds=3-values-all-bit-patterns(NaN-payloads,inf,subnormals),writer=whole-writes
values_h!(npy_values_written_whole, usize::MAX, 12);
// @harness props=C18,C07 tier=quick group=f64 bounds=3-values-all-bit-patterns,writer=3-bytes-per-call timeout=900
values_h!(npy_values_written_short3, 3, 12);
// @harness props=C18,C07 tier=quick group=f64 bounds=3-values-all-bit-patterns,writer=1-byte-per-call timeout=900
values_h!(npy_values_written_short1, 1, 12);
// @harness props=C18 tier=thorough group=f64 bounds=3-values-all-bit-patterns,writer=5-bytes-per-call timeout=900
values_h!(npy_values_written_short5, 5, 12);

macro_rules! write_fault_h {
    ($name:ident, $f:literal) => {
        #[kani::proof]
        #[kani::unwind(12)]
        #[kani::stub(header::Header::write, stub_header_write)]
        #[kani::stub(std::io::Error::is_interrupted, stub_not_interrupted)]
        fn $name() {
            let bits: [u64; 3] = kani::any();
            let x = [f64::from_bits(bits[0]), f64::from_bits(bits[1]), f64::from_bits(bits[2])];
            let arr = Array::new(x.to_vec(), vec![3usize]).unwrap();
            let mut w = Short {
                buf: [0; 32],
                len: 0,
                per_call: 4,
                fail_at: $f,
                skip: header_bytes(&arr),
            };
            let r = write_array(&mut w, &arr);
            // a writer failure at any offset surfaces; never Ok with partial data
            assert!(r.is_err());
            kani::cover!(true, "reached end");
            core::mem::forget(r);
            core::mem::forget(arr);
        }
    };
}

// @harness props=C18 tier=quick group=f64 bounds=3-values,writer-fails-at-offset=0
write_fault_h!(npy_values_write_fault_at0, 0);
// @harness props=C18 tier=quick group=f64 bounds=3-values,writer-fails-at-offset=7
write_fault_h!(npy_values_write_fault_at7, 7);
// @harness props=C18 tier=quick group=f64 bounds=3-values,writer-fails-at-offset=16
write_fault_h!(npy_values_write_fault_at16, 16);
// @harness props=C18 tier=thorough group=f64 bounds=3-values,writer-fails-at-offset=23
write_fault_h!(npy_values_write_fault_at23, 23);

/// read side of the round trip: what write_array emits for the values is read back bit-identically
/// by the '<f8' decoder (C07: npy values round-trip including NaN and infinities)
// @harness props=C07 tier=quick group=f64 bounds=3-values-all-bit-patterns,write-then-read timeout=900
#[kani::proof]
#[kani::unwind(12)]
#[kani::stub(header::Header::write, stub_header_write)]
#[kani::stub(std::io::Error::is_interrupted, stub_not_interrupted)]
fn npy_values_roundtrip() {
    let bits: [u64; 3] = kani::any();
    let x = [f64::from_bits(bits[0]), f64::from_bits(bits[1]), f64::from_bits(bits[2])];
    let arr = Array::new(x.to_vec(), vec![3usize]).unwrap();
    let mut w = Short {
        buf: [0; 32],
        len: 0,
        per_call: usize::MAX,
        fail_at: usize::MAX,
        skip: header_bytes(&arr),
    };
    let r = write_array(&mut w, &arr);
    assert!(r.is_ok());
    let mut rd = &w.buf[..24];
    match TypeDescriptor::new(Endian::Little, Type::F8).read(&mut rd) {
        Ok(v) => {
            assert!(v.len() == 3);
            assert!(v[0].to_bits() == bits[0] && v[1].to_bits() == bits[1] && v[2].to_bits() == bits[2]);
            core::mem::forget(v);
        }
        Err(e) => {
            core::mem::forget(e);
            assert!(false);
        }
    }
    kani::cover!(true, "reached end");
    core::mem::forget(r);
    core::mem::forget(arr);
}

