// Child module of crate::array.
// @inject crate=sfs-core file=core/src/array.rs mod=kv_array
#![allow(unused_imports)]
use super::*;

#[path = "../util.rs"]
mod util;
use util::*;

/// `Array<u8>` of a concrete shape whose element at flat position p is the symbolic byte d[p].
fn array_of<const R: usize, const N: usize>(shape: [usize; R], d: &[u8; N]) -> Array<u8> {
    Array::new(d.to_vec(), shape.to_vec()).unwrap()
}

/// get(): Some iff right length and all entries in range (entries over the full usize range), then
/// the element at the row-major position; get_mut agrees; Index agrees.
fn get_case<const R: usize, const R1: usize, const N: usize>(shape: [usize; R]) {
    let d: [u8; N] = kani::any();
    let arr = array_of(shape, &d);
    assert!(arr.dimensions() == R && arr.elements() == N);
    let idx: [usize; R1] = kani::any();
    let len: usize = kani::any();
    kani::assume(len <= R1);
    let got = arr.get(&idx[..len]);
    let mut ok = len == R;
    let mut k = [0usize; R];
    let mut j = 0;
    while j < R {
        if j < len {
            if idx[j] >= shape[j] {
                ok = false;
            }
            k[j] = idx[j];
        }
        j += 1;
    }
    if ok {
        let p = rank(&shape, &k);
        assert!(match got {
            Some(g) => core::ptr::eq(g, &arr.as_slice()[p]),
            None => false,
        });
        assert!(arr[k] == d[p]);
    } else {
        assert!(got.is_none());
    }
    kani::cover!(ok, "valid index");
    kani::cover!(!ok && len == R, "out of range");
    core::mem::forget(arr);
}

macro_rules! get_h {
    ($name:ident, $r:literal, $r1:literal, $n:literal, $shape:expr, $unw:literal) => {
        #[kani::proof]
        #[kani::unwind($unw)]
        fn $name() {
            get_case::<$r, $r1, $n>($shape)
        }
    };
}

// @harness props=C19,C17 tier=quick bounds=shape=[1],index-entries=any-usize,index-len=0..2
get_h!(array_get_1, 1, 2, 1, [1], 4);

// @harness props=C19,C17 tier=quick bounds=shape=[4],index-entries=any-usize,index-len=0..2
get_h!(array_get_4, 1, 2, 4, [4], 7);

// @harness props=C19,C17 tier=quick bounds=shape=[2,3],index-entries=any-usize,index-len=0..3
get_h!(array_get_2x3, 2, 3, 6, [2, 3], 9);

// @harness props=C19,C17 tier=quick bounds=shape=[3,1],index-entries=any-usize,index-len=0..3
get_h!(array_get_3x1, 2, 3, 3, [3, 1], 6);

// @harness props=C19,C17 tier=quick bounds=shape=[2,3,2],index-entries=any-usize,index-len=0..4
get_h!(array_get_2x3x2, 3, 4, 12, [2, 3, 2], 15);

// @harness props=C19,C17 tier=quick bounds=shape=[1,2,2,2],index-entries=any-usize,index-len=0..5
get_h!(array_get_1x2x2x2, 4, 5, 8, [1, 2, 2, 2], 11);

// @harness props=C19,C17 tier=thorough bounds=shape=[3,2,2],index-entries=any-usize,index-len=0..4
get_h!(array_get_3x2x2, 3, 4, 12, [3, 2, 2], 15);

// @harness props=C19,C17 tier=thorough bounds=shape=[2,2,1,2,1],index-entries=any-usize,index-len=0..6
get_h!(array_get_2x2x1x2x1, 5, 6, 8, [2, 2, 1, 2, 1], 11);

/// get_axis(): Some iff axis < rank and position < length of that axis (both over the full usize
/// range) — never a panic.
fn get_axis_case<const R: usize, const N: usize>(shape: [usize; R]) {
    let d: [u8; N] = kani::any();
    let arr = array_of(shape, &d);
    let axis: usize = kani::any();
    let pos: usize = kani::any();
    let got = arr.get_axis(Axis(axis), pos);
    let ok = axis < R && pos < shape[if axis < R { axis } else { 0 }];
    assert!(got.is_some() == ok);
    if let Some(v) = got {
        assert!(v.dimensions() == R - 1);
    }
    kani::cover!(ok, "valid");
    kani::cover!(axis == R, "axis == rank");
    kani::cover!(axis < R && pos == shape[if axis < R { axis } else { 0 }], "position == length");
    core::mem::forget(arr);
}

macro_rules! get_axis_h {
    ($name:ident, $r:literal, $n:literal, $shape:expr, $unw:literal) => {
        #[kani::proof]
        #[kani::unwind($unw)]
        fn $name() {
            get_axis_case::<$r, $n>($shape)
        }
    };
}

// @harness props=C19,C17 tier=quick bounds=shape=[3],axis=any-usize,position=any-usize
get_axis_h!(get_axis_bounds_3, 1, 3, [3], 6);

// @harness props=C19,C17 tier=quick bounds=shape=[2,3],axis=any-usize,position=any-usize
get_axis_h!(get_axis_bounds_2x3, 2, 6, [2, 3], 9);

// @harness props=C19,C17 tier=quick bounds=shape=[2,3,2],axis=any-usize,position=any-usize
get_axis_h!(get_axis_bounds_2x3x2, 3, 12, [2, 3, 2], 15);

// @harness props=C19,C17 tier=quick bounds=shape=[1,2,2,2],axis=any-usize,position=any-usize
get_axis_h!(get_axis_bounds_1x2x2x2, 4, 8, [1, 2, 2, 2], 11);

/// iter_indices(): item p is the multi-index of flat p, Π n items, then None x3; len() is what is left.
fn iter_indices_case<const R: usize, const N: usize>(shape: [usize; R]) {
    let arr: Array<u8> = Array::from_element(0u8, shape.to_vec());
    let mut it = arr.iter_indices();
    let mut p = 0usize;
    while p < N {
        assert!(it.len() == N - p);
        let got = it.next();
        let exp = unrank(&shape, p);
        match got {
            Some(v) => {
                assert!(v.len() == R);
                let mut j = 0;
                while j < R {
                    assert!(v[j] == exp[j]);
                    j += 1;
                }
                // indexing by it returns the element at that position
                assert!(core::ptr::eq(arr.get(&v).unwrap(), &arr.as_slice()[p]));
                core::mem::forget(v);
            }
            None => assert!(false),
        }
        p += 1;
    }
    assert!(it.len() == 0);
    assert!(it.next().is_none());
    assert!(it.next().is_none());
    assert!(it.next().is_none());
    assert!(it.len() == 0);
    core::mem::forget(arr);
}

macro_rules! iter_indices_h {
    ($name:ident, $r:literal, $n:literal, $shape:expr, $unw:literal) => {
        #[kani::proof]
        #[kani::unwind($unw)]
        fn $name() {
            iter_indices_case::<$r, $n>($shape);
            kani::cover!(true, "reached end");
        }
    };
}

// @harness props=C19 tier=quick bounds=shape=[1]
iter_indices_h!(iter_indices_1, 1, 1, [1], 4);

// @harness props=C19 tier=quick bounds=shape=[5]
iter_indices_h!(iter_indices_5, 1, 5, [5], 8);

// @harness props=C19 tier=quick bounds=shape=[2,3]
iter_indices_h!(iter_indices_2x3, 2, 6, [2, 3], 9);

// @harness props=C19 tier=quick bounds=shape=[3,2]
iter_indices_h!(iter_indices_3x2, 2, 6, [3, 2], 9);

// @harness props=C19 tier=quick bounds=shape=[1,4]
iter_indices_h!(iter_indices_1x4, 2, 4, [1, 4], 7);

// @harness props=C19 tier=quick bounds=shape=[2,1,3]
iter_indices_h!(iter_indices_2x1x3, 3, 6, [2, 1, 3], 9);

// @harness props=C19 tier=quick bounds=shape=[2,3,2]
iter_indices_h!(iter_indices_2x3x2, 3, 12, [2, 3, 2], 15);

// @harness props=C19 tier=quick bounds=shape=[2,2,1,2]
iter_indices_h!(iter_indices_2x2x1x2, 4, 8, [2, 2, 1, 2], 11);

// @harness props=C19 tier=thorough bounds=shape=[3,2,3]
iter_indices_h!(iter_indices_3x2x3, 3, 18, [3, 2, 3], 21);

// @harness props=C19 tier=thorough bounds=shape=[2,1,2,1,2]
iter_indices_h!(iter_indices_2x1x2x1x2, 5, 8, [2, 1, 2, 1, 2], 11);

/// Whole run of an axis view from the fresh state: exactly the elements whose a-th index is i, in
/// row-major order of the remaining axes, once, then None forever; len() counts down.
fn axis_view_case<const R: usize, const N: usize>(shape: [usize; R], axis: usize, pos: usize) {
    let d: [u8; N] = kani::any();
    let arr = array_of(shape, &d);
    let view = arr.get_axis(Axis(axis), pos).unwrap();
    let mut it = view.iter();
    let mut left = N / shape[axis];
    let mut p = 0usize;
    while p < N {
        let idx = unrank(&shape, p);
        if idx[axis] == pos {
            assert!(it.len() == left);
            let got = it.next();
            // contents are symbolic bytes: returning any other element differs for some contents
            assert!(got == Some(&d[p]));
            left -= 1;
        }
        p += 1;
    }
    assert!(left == 0);
    assert!(it.len() == 0);
    assert!(it.next().is_none());
    assert!(it.len() == 0);
    assert!(it.next().is_none());
    assert!(it.next().is_none());
    assert!(it.len() == 0);
    core::mem::forget(arr);
}

macro_rules! axis_view_h {
    ($name:ident, $r:literal, $n:literal, $shape:expr, $axis:literal, $unw:literal) => {
        #[kani::proof]
        #[kani::unwind($unw)]
        fn $name() {
            // structure (shape, axis, position) concrete, contents symbolic: a symbolic position
            // alone makes CBMC run out of memory (DESIGN section 1)
            let shape: [usize; $r] = $shape;
            let mut pos = 0;
            while pos < shape[$axis] {
                axis_view_case::<$r, $n>(shape, $axis, pos);
                pos += 1;
            }
            kani::cover!(true, "reached end");
        }
    };
}

// @harness props=C19,C04 tier=quick bounds=shape=[3],axis=0,all-positions,cells=any-u8 timeout=900
axis_view_h!(axis_view_run_3_a0, 1, 3, [3], 0, 6);

// @harness props=C19,C04 tier=quick bounds=shape=[2,3],axis=0,all-positions,cells=any-u8 timeout=900
axis_view_h!(axis_view_run_2x3_a0, 2, 6, [2, 3], 0, 9);

// @harness props=C19,C04 tier=quick bounds=shape=[2,3],axis=1,all-positions,cells=any-u8 timeout=900
axis_view_h!(axis_view_run_2x3_a1, 2, 6, [2, 3], 1, 9);

// @harness props=C19,C04 tier=quick bounds=shape=[2,3,2],axis=0,all-positions,cells=any-u8 timeout=900
axis_view_h!(axis_view_run_2x3x2_a0, 3, 12, [2, 3, 2], 0, 15);

// @harness props=C19,C04 tier=quick bounds=shape=[2,3,2],axis=1,all-positions,cells=any-u8 timeout=900
axis_view_h!(axis_view_run_2x3x2_a1, 3, 12, [2, 3, 2], 1, 15);

// @harness props=C19,C04 tier=quick bounds=shape=[2,3,2],axis=2,all-positions,cells=any-u8 timeout=900
axis_view_h!(axis_view_run_2x3x2_a2, 3, 12, [2, 3, 2], 2, 15);

// @harness props=C19,C04 tier=quick bounds=shape=[1,1],axis=0,all-positions,cells=any-u8 timeout=900
axis_view_h!(axis_view_run_1x1_a0, 2, 1, [1, 1], 0, 5);

// @harness props=C19,C04 tier=quick bounds=shape=[1,1],axis=1,all-positions,cells=any-u8 timeout=900
axis_view_h!(axis_view_run_1x1_a1, 2, 1, [1, 1], 1, 5);

// @harness props=C19,C04 tier=quick bounds=shape=[3,1],axis=0,all-positions,cells=any-u8 timeout=900
axis_view_h!(axis_view_run_3x1_a0, 2, 3, [3, 1], 0, 6);

// @harness props=C19,C04 tier=quick bounds=shape=[3,1],axis=1,all-positions,cells=any-u8 timeout=900
axis_view_h!(axis_view_run_3x1_a1, 2, 3, [3, 1], 1, 6);

// @harness props=C19,C04 tier=thorough bounds=shape=[2,1,2,3],axis=0,all-positions,cells=any-u8 timeout=900
axis_view_h!(axis_view_run_2x1x2x3_a0, 4, 12, [2, 1, 2, 3], 0, 15);

// @harness props=C19,C04 tier=thorough bounds=shape=[2,1,2,3],axis=1,all-positions,cells=any-u8 timeout=900
axis_view_h!(axis_view_run_2x1x2x3_a1, 4, 12, [2, 1, 2, 3], 1, 15);

// @harness props=C19,C04 tier=thorough bounds=shape=[2,1,2,3],axis=2,all-positions,cells=any-u8 timeout=900
axis_view_h!(axis_view_run_2x1x2x3_a2, 4, 12, [2, 1, 2, 3], 2, 15);

// @harness props=C19,C04 tier=thorough bounds=shape=[2,1,2,3],axis=3,all-positions,cells=any-u8 timeout=900
axis_view_h!(axis_view_run_2x1x2x3_a3, 4, 12, [2, 1, 2, 3], 3, 15);

// @harness props=C19,C04 tier=thorough bounds=shape=[3,2,2],axis=0,all-positions,cells=any-u8 timeout=900
axis_view_h!(axis_view_run_3x2x2_a0, 3, 12, [3, 2, 2], 0, 15);

// @harness props=C19,C04 tier=thorough bounds=shape=[3,2,2],axis=1,all-positions,cells=any-u8 timeout=900
axis_view_h!(axis_view_run_3x2x2_a1, 3, 12, [3, 2, 2], 1, 15);

// @harness props=C19,C04 tier=thorough bounds=shape=[3,2,2],axis=2,all-positions,cells=any-u8 timeout=900
axis_view_h!(axis_view_run_3x2x2_a2, 3, 12, [3, 2, 2], 2, 15);

// @harness props=C19,C04 tier=thorough bounds=shape=[1,3,1],axis=0,all-positions,cells=any-u8 timeout=900
axis_view_h!(axis_view_run_1x3x1_a0, 3, 3, [1, 3, 1], 0, 6);

// @harness props=C19,C04 tier=thorough bounds=shape=[1,3,1],axis=1,all-positions,cells=any-u8 timeout=900
axis_view_h!(axis_view_run_1x3x1_a1, 3, 3, [1, 3, 1], 1, 6);

// @harness props=C19,C04 tier=thorough bounds=shape=[1,3,1],axis=2,all-positions,cells=any-u8 timeout=900
axis_view_h!(axis_view_run_1x3x1_a2, 3, 3, [1, 3, 1], 2, 6);

// @harness props=C19,C04 tier=thorough bounds=shape=[2,2,2,2],axis=0,all-positions,cells=any-u8 timeout=900
axis_view_h!(axis_view_run_2x2x2x2_a0, 4, 16, [2, 2, 2, 2], 0, 19);

// @harness props=C19,C04 tier=thorough bounds=shape=[2,2,2,2],axis=1,all-positions,cells=any-u8 timeout=900
axis_view_h!(axis_view_run_2x2x2x2_a1, 4, 16, [2, 2, 2, 2], 1, 19);

// @harness props=C19,C04 tier=thorough bounds=shape=[2,2,2,2],axis=2,all-positions,cells=any-u8 timeout=900
axis_view_h!(axis_view_run_2x2x2x2_a2, 4, 16, [2, 2, 2, 2], 2, 19);

// @harness props=C19,C04 tier=thorough bounds=shape=[2,2,2,2],axis=3,all-positions,cells=any-u8 timeout=900
axis_view_h!(axis_view_run_2x2x2x2_a3, 4, 16, [2, 2, 2, 2], 3, 19);

fn model_into_shape<'a>(r: shape::RemovedAxis<'a, Shape>) -> Shape
where
    'a: 'a,
{
    let n = r.len();
    let mut v = Vec::with_capacity(n);
    let mut i = 0;
    while i < n {
        v.push(*r.get(i).unwrap());
        i += 1;
    }
    Shape(v)
}

/// sum(axis) = cell-wise sum of the axis views = Σ over the removed index (integer oracle, cells 0..7).
fn sum_case<const R: usize, const V: usize, const N: usize>(shape: [usize; R], axis: usize) {
    let d: [u8; N] = small::<N>(8);
    let x = as_f64(&d);
    let arr: Array<f64> = Array::new(x.to_vec(), shape.to_vec()).unwrap();
    let s = arr.sum(Axis(axis));
    // result shape = shape without `axis`
    let mut m = [0usize; V];
    let mut j = 0;
    while j < V {
        m[j] = shape[if j < axis { j } else { j + 1 }];
        assert!(s.shape()[j] == m[j]);
        j += 1;
    }
    assert!(s.dimensions() == V);
    let out = s.as_slice();
    assert!(out.len() == N / shape[axis]);
    let mut q = 0usize;
    while q < out.len() {
        let kept = unrank(&m, q);
        let mut t = 0u32;
        let mut i = 0usize;
        while i < shape[axis] {
            let mut full = [0usize; R];
            let mut j = 0;
            while j < R {
                full[j] = if j < axis {
                    kept[j]
                } else if j == axis {
                    i
                } else {
                    kept[j - 1]
                };
                j += 1;
            }
            t += d[rank(&shape, &full)] as u32;
            i += 1;
        }
        assert!(out[q] == t as f64);
        q += 1;
    }
    core::mem::forget(s);
    core::mem::forget(arr);
}

macro_rules! sum_h {
    ($name:ident, $r:literal, $v:literal, $n:literal, $shape:expr, $axis:literal, $unw:literal) => {
        #[kani::proof]
        #[kani::unwind($unw)]
        #[kani::stub(shape::RemovedAxis::<'_, Shape>::into_shape, model_into_shape)]
        fn $name() {
            sum_case::<$r, $v, $n>($shape, $axis);
            kani::cover!(true, "reached end");
        }
    };
}

// @harness props=C19,C04 tier=quick group=f64 bounds=shape=[2,3],axis=0,cells=0..7 timeout=900
sum_h!(sum_equals_views_2x3_a0, 2, 1, 6, [2, 3], 0, 9);

// @harness props=C19,C04 tier=quick group=f64 bounds=shape=[2,3],axis=1,cells=0..7 timeout=900
sum_h!(sum_equals_views_2x3_a1, 2, 1, 6, [2, 3], 1, 9);

// @harness props=C19,C04 tier=quick group=f64 bounds=shape=[3,2],axis=0,cells=0..7 timeout=900
sum_h!(sum_equals_views_3x2_a0, 2, 1, 6, [3, 2], 0, 9);

// @harness props=C19,C04 tier=quick group=f64 bounds=shape=[3,2],axis=1,cells=0..7 timeout=900
sum_h!(sum_equals_views_3x2_a1, 2, 1, 6, [3, 2], 1, 9);

// @harness props=C19,C04 tier=quick group=f64 bounds=shape=[2,3,2],axis=0,cells=0..7 timeout=900
sum_h!(sum_equals_views_2x3x2_a0, 3, 2, 12, [2, 3, 2], 0, 15);

// @harness props=C19,C04 tier=quick group=f64 bounds=shape=[2,3,2],axis=1,cells=0..7 timeout=900
sum_h!(sum_equals_views_2x3x2_a1, 3, 2, 12, [2, 3, 2], 1, 15);

// @harness props=C19,C04 tier=quick group=f64 bounds=shape=[2,3,2],axis=2,cells=0..7 timeout=900
sum_h!(sum_equals_views_2x3x2_a2, 3, 2, 12, [2, 3, 2], 2, 15);

// @harness props=C19,C04 tier=thorough group=f64 bounds=shape=[2,2,2,2],axis=0,cells=0..7 timeout=900
sum_h!(sum_equals_views_2x2x2x2_a0, 4, 3, 16, [2, 2, 2, 2], 0, 19);

// @harness props=C19,C04 tier=thorough group=f64 bounds=shape=[2,2,2,2],axis=1,cells=0..7 timeout=900
sum_h!(sum_equals_views_2x2x2x2_a1, 4, 3, 16, [2, 2, 2, 2], 1, 19);

// @harness props=C19,C04 tier=thorough group=f64 bounds=shape=[2,2,2,2],axis=2,cells=0..7 timeout=900
sum_h!(sum_equals_views_2x2x2x2_a2, 4, 3, 16, [2, 2, 2, 2], 2, 19);

// @harness props=C19,C04 tier=thorough group=f64 bounds=shape=[2,2,2,2],axis=3,cells=0..7 timeout=900
sum_h!(sum_equals_views_2x2x2x2_a3, 4, 3, 16, [2, 2, 2, 2], 3, 19);

// @harness props=C19,C04 tier=thorough group=f64 bounds=shape=[3,2,4],axis=0,cells=0..7 timeout=900
sum_h!(sum_equals_views_3x2x4_a0, 3, 2, 24, [3, 2, 4], 0, 27);

// @harness props=C19,C04 tier=thorough group=f64 bounds=shape=[3,2,4],axis=1,cells=0..7 timeout=900
sum_h!(sum_equals_views_3x2x4_a1, 3, 2, 24, [3, 2, 4], 1, 27);

// @harness props=C19,C04 tier=thorough group=f64 bounds=shape=[3,2,4],axis=2,cells=0..7 timeout=900
sum_h!(sum_equals_views_3x2x4_a2, 3, 2, 24, [3, 2, 4], 2, 27);

