// Child module of crate::array::view::iter (can build an `Iter` field by field).
// @inject crate=sfs-core file=core/src/array/view/iter.rs mod=kv_view_iter
//
// One inductive step of view::Iter::next from an arbitrary live state (DESIGN 2.1 form 1).
// State "k items already yielded" (k >= 1):  index = k, coords = unrank(k-1), offset = coords . strides;
// fresh state (k = 0) is whatever Iter::new builds.  By induction over k the iterator yields the
// view's elements in row-major order of the remaining axes, once, and its len() is what is left.
#![allow(unused_imports)]
use super::*;
use crate::array::shape::Strides;
use crate::array::{Axis, Shape};

#[path = "../util.rs"]
mod util;
use util::*;

const CELLS: usize = 256;

/// R = rank of the array, V = R - 1 = rank of the view.
fn view_iter_step<const R: usize, const V: usize>(hi: usize) {
    let n: [usize; R] = kani::any();
    let mut j = 0;
    while j < R {
        kani::assume(n[j] >= 1 && n[j] <= hi);
        j += 1;
    }
    let axis: usize = kani::any();
    kani::assume(axis < R);
    let pos: usize = kani::any();
    kani::assume(pos < n[axis]);
    // row-major strides (model; that Shape::strides computes these is shape_index_lemmas)
    let mut st = [1usize; R];
    let mut j = R;
    while j > 1 {
        j -= 1;
        st[j - 1] = st[j] * n[j];
    }
    let shape = Shape(n.to_vec());
    let strides = Strides(st.to_vec());
    let data: [u8; CELLS] = kani::any();
    let total_all = product(&n);
    let start = pos * st[axis];
    let view = View::new_unchecked(
        &data[start..total_all],
        shape.remove_axis(Axis(axis)),
        strides.remove_axis(Axis(axis)),
    );
    // the remaining axes
    let mut m = [0usize; V];
    let mut s = [0usize; V];
    let mut j = 0;
    while j < V {
        let src = if j < axis { j } else { j + 1 };
        m[j] = n[src];
        s[j] = st[src];
        j += 1;
    }
    let total = product(&m);
    let k: usize = kani::any();
    kani::assume(k <= total);
    let mut it = if k == 0 {
        Iter::new(view)
    } else {
        let c = unrank(&m, k - 1);
        let mut off = 0usize;
        let mut j = 0;
        while j < V {
            off += c[j] * s[j];
            j += 1;
        }
        Iter {
            view,
            coords: c.to_vec(),
            offset: off,
            index: k,
        }
    };
    assert!(it.len() == total - k);
    let got = it.next();
    if k < total {
        let d = unrank(&m, k);
        let mut off = 0usize;
        let mut j = 0;
        while j < V {
            off += d[j] * s[j];
            j += 1;
        }
        let exp = &data[start + off];
        assert!(match got {
            Some(p) => core::ptr::eq(p, exp),
            None => false,
        });
        // successor state is "k+1 yielded"
        assert!(it.index == k + 1, "INV: Iter.index counts yielded items");
        assert!(it.offset == off, "INV: Iter.offset = coords . strides");
        let mut j = 0;
        while j < V {
            assert!(it.coords[j] == d[j], "INV: Iter.coords = unrank(index-1)");
            j += 1;
        }
        assert!(it.len() == total - k - 1);
        kani::cover!(V < 2 || (d[V - 1] == 0 && k > 0), "carry into an earlier axis (views of rank >= 2)");
        kani::cover!(k == 0, "fresh state");
    } else {
        assert!(got.is_none());
        // the exhausted state is absorbing (three further calls)
        assert!(it.len() == 0);
        assert!(it.next().is_none());
        assert!(it.len() == 0);
        assert!(it.next().is_none());
        assert!(it.next().is_none());
        assert!(it.len() == 0);
        kani::cover!(true, "exhausted");
    }
    core::mem::forget(it);
}

// @harness props=C19,C17 tier=quick bounds=array-rank=1(view-rank=0),lengths=1..6,all-positions,all-states
#[kani::proof]
#[kani::unwind(4)]
fn view_iter_step_rank0() {
    view_iter_step::<1, 0>(6)
}

// @harness props=C19,C04 tier=quick bounds=array-rank=2(view-rank=1),lengths=1..6,all-axes,all-positions,all-states
#[kani::proof]
#[kani::unwind(5)]
fn view_iter_step_rank1() {
    view_iter_step::<2, 1>(6)
}

// @harness props=C19,C04 tier=quick bounds=array-rank=3(view-rank=2),lengths=1..4,all-axes,all-positions,all-states timeout=900
#[kani::proof]
#[kani::unwind(6)]
fn view_iter_step_rank2() {
    view_iter_step::<3, 2>(4)
}

// @harness props=C19,C04 tier=thorough bounds=array-rank=4(view-rank=3),lengths=1..3,all-axes,all-positions,all-states timeout=3000
#[kani::proof]
#[kani::unwind(7)]
fn view_iter_step_rank3() {
    view_iter_step::<4, 3>(3)
}

// @harness props=C19,C04 tier=thorough bounds=array-rank=5(view-rank=4),lengths=1..2,all-axes,all-positions,all-states timeout=3000
#[kani::proof]
#[kani::unwind(8)]
fn view_iter_step_rank4() {
    view_iter_step::<5, 4>(2)
}
