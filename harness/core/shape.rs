// Child module of crate::array::shape  (sees Shape, Strides, RemovedAxis internals).
// @inject crate=sfs-core file=core/src/array/shape.rs mod=kv_shape
//
// Symbolic-structure lemmas of the index layer (DESIGN 2.1 form 2): the rank is concrete per
// harness, the axis lengths, indices, removed axis are solver variables.
#![allow(unused_imports)]
use super::*;

#[path = "../util.rs"]
mod util;
use util::*;

fn lengths<const R: usize>(lo: usize, hi: usize) -> [usize; R] {
    let n: [usize; R] = kani::any();
    let mut j = 0;
    while j < R {
        kani::assume(n[j] >= lo && n[j] <= hi);
        j += 1;
    }
    n
}

/// strides = row-major products; flat_index = Horner; index_from_flat inverts it; index_sum; mirror.
fn index_lemmas<const R: usize>(hi: usize) {
    let n: [usize; R] = lengths::<R>(1, hi);
    let k: [usize; R] = kani::any();
    let mut j = 0;
    while j < R {
        kani::assume(k[j] < n[j]);
        j += 1;
    }
    let shape = Shape(n.to_vec());
    assert!(shape.dimensions() == R);
    assert!(shape.elements() == product(&n));
    let strides = shape.strides();
    assert!(strides.0.len() == R);
    // stride j = product of the later lengths
    let mut j = 0;
    while j < R {
        let mut s = 1usize;
        let mut l = j + 1;
        while l < R {
            s *= n[l];
            l += 1;
        }
        assert!(strides.0[j] == s);
        j += 1;
    }
    let flat = strides.flat_index(&shape, k);
    assert!(flat == Some(rank(&n, &k)));
    let flat = rank(&n, &k);
    assert!(strides.flat_index_unchecked(k) == flat);
    let back = shape.index_from_flat_unchecked(flat);
    assert!(back.len() == R);
    let mut sum = 0usize;
    let mut m = [0usize; R];
    let mut j = 0;
    while j < R {
        assert!(back[j] == k[j]);
        sum += k[j];
        m[j] = n[j] - 1 - k[j];
        j += 1;
    }
    assert!(shape.index_sum_from_flat_unchecked(flat) == sum);
    // the per-axis mirror of index k sits at flat position elements-1-flat
    assert!(strides.flat_index(&shape, m) == Some(shape.elements() - 1 - flat));
    kani::cover!(flat > 0 && flat + 1 < shape.elements(), "interior index");
    core::mem::forget(back);
}

// @harness props=C19,C05 tier=quick bounds=rank=1,lengths=1..6,all-indices
#[kani::proof]
#[kani::unwind(4)]
fn shape_index_lemmas_rank1() {
    index_lemmas::<1>(6)
}

// @harness props=C19,C05 tier=quick bounds=rank=2,lengths=1..6,all-indices
#[kani::proof]
#[kani::unwind(5)]
fn shape_index_lemmas_rank2() {
    index_lemmas::<2>(6)
}

// @harness props=C19,C05 tier=quick bounds=rank=3,lengths=1..6,all-indices timeout=900
#[kani::proof]
#[kani::unwind(6)]
fn shape_index_lemmas_rank3() {
    index_lemmas::<3>(6)
}

// @harness props=C19,C05 tier=thorough bounds=rank=4,lengths=1..4,all-indices timeout=2400
#[kani::proof]
#[kani::unwind(7)]
fn shape_index_lemmas_rank4() {
    index_lemmas::<4>(4)
}

// @harness props=C19 tier=thorough bounds=rank=5,lengths=1..3,all-indices timeout=2400
#[kani::proof]
#[kani::unwind(8)]
fn shape_index_lemmas_rank5() {
    index_lemmas::<5>(3)
}

/// flat_index is Some iff the index has the right length and every entry is in range; never panics,
/// for index entries over the full usize range and index slices of length 0..R+1.
fn flat_index_bounds<const R: usize, const R1: usize>(hi: usize) {
    let n: [usize; R] = lengths::<R>(0, hi);
    let idx: [usize; R1] = kani::any();
    let len: usize = kani::any();
    kani::assume(len <= R1);
    let shape = Shape(n.to_vec());
    let strides = shape.strides();
    let got = strides.flat_index(&shape, &idx[..len]);
    let mut ok = len == R;
    let mut j = 0;
    while j < R {
        if j < len && idx[j] >= n[j] {
            ok = false;
        }
        j += 1;
    }
    assert!(got.is_some() == ok);
    if ok {
        let mut k = [0usize; R];
        let mut j = 0;
        while j < R {
            k[j] = idx[j];
            j += 1;
        }
        assert!(got == Some(rank(&n, &k)));
        assert!(rank(&n, &k) < shape.elements());
    }
    kani::cover!(ok, "in range");
    kani::cover!(len == R && !ok, "out of range");
    kani::cover!(len != R, "wrong length");
}

// @harness props=C19,C17 tier=quick bounds=rank=1,lengths=0..5,index-entries=any-usize,index-len=0..2
#[kani::proof]
#[kani::unwind(5)]
fn flat_index_bounds_rank1() {
    flat_index_bounds::<1, 2>(5)
}

// @harness props=C19,C17 tier=quick bounds=rank=2,lengths=0..5,index-entries=any-usize,index-len=0..3
#[kani::proof]
#[kani::unwind(6)]
fn flat_index_bounds_rank2() {
    flat_index_bounds::<2, 3>(5)
}

// @harness props=C19,C17 tier=quick bounds=rank=3,lengths=0..5,index-entries=any-usize,index-len=0..4
#[kani::proof]
#[kani::unwind(7)]
fn flat_index_bounds_rank3() {
    flat_index_bounds::<3, 4>(5)
}

// @harness props=C19,C17 tier=thorough bounds=rank=4,lengths=0..5,index-entries=any-usize,index-len=0..5
#[kani::proof]
#[kani::unwind(8)]
fn flat_index_bounds_rank4() {
    flat_index_bounds::<4, 5>(5)
}

/// RemovedAxis: get / len / iter / elements / into_shape agree with "the list without entry a",
/// for every removed position including the last (the real into_shape is what full-run harnesses
/// replace by the loop-and-push model `model_into_shape`; this lemma ties the two together).
/// The removed position is concrete per harness (a symbolic one makes the length of the collected
/// Vec symbolic for CBMC: out of memory), the axis lengths are symbolic.
fn removed_axis_lemmas<const R: usize>(a: usize, hi: usize) {
    let n: [usize; R] = lengths::<R>(0, hi);
    let shape = Shape(n.to_vec());
    let r = shape.remove_axis(Axis(a));
    assert!(r.len() == R - 1);
    let mut prod = 1usize;
    let mut i = 0;
    while i < R {
        let expect = if i < a {
            Some(n[i])
        } else if i + 1 < R {
            Some(n[i + 1])
        } else {
            None
        };
        let got = r.get(i).copied();
        assert!(got == expect);
        if i != a {
            prod *= n[i];
        }
        i += 1;
    }
    assert!(r.get(R).is_none());
    assert!(r.elements() == prod);
    let mut it = r.iter();
    let mut i = 0;
    while i + 1 < R {
        let e = if i < a { n[i] } else { n[i + 1] };
        assert!(it.next() == Some(&e));
        i += 1;
    }
    assert!(it.next().is_none());
    let s = r.into_shape();
    assert!(s.0.len() == R - 1);
    let mut i = 0;
    while i + 1 < R {
        let e = if i < a { n[i] } else { n[i + 1] };
        assert!(s.0[i] == e);
        i += 1;
    }
    kani::cover!(true, "reached end");
}

macro_rules! removed_axis_h {
    ($name:ident, $r:literal, $a:literal, $unw:literal) => {
        #[kani::proof]
        #[kani::unwind($unw)]
        fn $name() {
            removed_axis_lemmas::<$r>($a, 5)
        }
    };
}

// @harness props=C19,C04 tier=quick bounds=rank=1,removed-axis=0,lengths=0..5
removed_axis_h!(removed_axis_lemmas_r1_a0, 1, 0, 4);

// @harness props=C19,C04 tier=quick bounds=rank=2,removed-axis=0,lengths=0..5
removed_axis_h!(removed_axis_lemmas_r2_a0, 2, 0, 5);

// @harness props=C19,C04 tier=quick bounds=rank=2,removed-axis=1,lengths=0..5
removed_axis_h!(removed_axis_lemmas_r2_a1, 2, 1, 5);

// @harness props=C19,C04 tier=quick bounds=rank=3,removed-axis=0,lengths=0..5
removed_axis_h!(removed_axis_lemmas_r3_a0, 3, 0, 6);

// @harness props=C19,C04 tier=quick bounds=rank=3,removed-axis=1,lengths=0..5
removed_axis_h!(removed_axis_lemmas_r3_a1, 3, 1, 6);

// @harness props=C19,C04 tier=quick bounds=rank=3,removed-axis=2,lengths=0..5
removed_axis_h!(removed_axis_lemmas_r3_a2, 3, 2, 6);

// @harness props=C19,C04 tier=quick bounds=rank=4,removed-axis=0,lengths=0..5
removed_axis_h!(removed_axis_lemmas_r4_a0, 4, 0, 7);

// @harness props=C19,C04 tier=quick bounds=rank=4,removed-axis=1,lengths=0..5
removed_axis_h!(removed_axis_lemmas_r4_a1, 4, 1, 7);

// @harness props=C19,C04 tier=quick bounds=rank=4,removed-axis=2,lengths=0..5
removed_axis_h!(removed_axis_lemmas_r4_a2, 4, 2, 7);

// @harness props=C19,C04 tier=quick bounds=rank=4,removed-axis=3,lengths=0..5
removed_axis_h!(removed_axis_lemmas_r4_a3, 4, 3, 7);

// @harness props=C19,C04 tier=thorough bounds=rank=5,removed-axis=0,lengths=0..5
removed_axis_h!(removed_axis_lemmas_r5_a0, 5, 0, 8);

// @harness props=C19,C04 tier=thorough bounds=rank=5,removed-axis=1,lengths=0..5
removed_axis_h!(removed_axis_lemmas_r5_a1, 5, 1, 8);

// @harness props=C19,C04 tier=thorough bounds=rank=5,removed-axis=2,lengths=0..5
removed_axis_h!(removed_axis_lemmas_r5_a2, 5, 2, 8);

// @harness props=C19,C04 tier=thorough bounds=rank=5,removed-axis=3,lengths=0..5
removed_axis_h!(removed_axis_lemmas_r5_a3, 5, 3, 8);

// @harness props=C19,C04 tier=thorough bounds=rank=5,removed-axis=4,lengths=0..5
removed_axis_h!(removed_axis_lemmas_r5_a4, 5, 4, 8);

