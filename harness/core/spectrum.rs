// Child module of crate::spectrum.
// @inject crate=sfs-core file=core/src/spectrum.rs mod=kv_spectrum
//
// Full runs on concrete structure (DESIGN 2.1 form 3): shape / axis list concrete per harness,
// cell values symbolic small integers (exact in f64), integer oracles written from the property
// statements with a per-axis mirror / nested sums (never the implementation's flat-index tricks).
#![allow(unused_imports)]
use super::*;
use crate::array::shape::RemovedAxis;

#[path = "../util.rs"]
mod util;
use util::*;

fn model_into_shape<'a>(r: RemovedAxis<'a, Shape>) -> Shape
where
    'a: 'a,
{
    let n = r.len();
    let mut v = Vec::with_capacity(n);
    let mut i = 0;
    while i < n {
        v.push(*r.get(i).unwrap());
        i += 1;
    }
    Shape(v)
}

fn scs_of<const R: usize, const N: usize>(shape: [usize; R], d: &[u8; N]) -> Scs {
    let x = as_f64(d);
    Scs::new(x.to_vec(), shape.to_vec()).unwrap()
}

fn shape_is<const R: usize, S: State>(s: &Spectrum<S>, shape: &[usize; R]) -> bool {
    if s.shape().len() != R {
        return false;
    }
    let mut j = 0;
    while j < R {
        if s.shape()[j] != shape[j] {
            return false;
        }
        j += 1;
    }
    true
}

// ------------------------------------------------------------------------------------------
// C05 folding
// ------------------------------------------------------------------------------------------

fn fill_choice() -> f64 {
    match choice(4) {
        0 => f64::NAN,
        1 => 0.0,
        2 => -1.0,
        _ => f64::INFINITY,
    }
}

fn is_fill(v: f64, fill: f64) -> bool {
    if fill != fill {
        v != v
    } else {
        v == fill
    }
}

/// per-axis mirror of flat position p
fn mirror<const R: usize>(shape: &[usize; R], p: usize) -> usize {
    let k = unrank(shape, p);
    let mut m = [0usize; R];
    let mut j = 0;
    while j < R {
        m[j] = shape[j] - 1 - k[j];
        j += 1;
    }
    rank(shape, &m)
}

fn index_sum<const R: usize>(shape: &[usize; R], p: usize) -> usize {
    let k = unrank(shape, p);
    let mut s = 0;
    let mut j = 0;
    while j < R {
        s += k[j];
        j += 1;
    }
    s
}

/// out = fold(x).into_spectrum(fill) against the statement: s < T/2: x[k] + x[mirror k];
/// s = T/2: the average of the pair; s > T/2: fill.  Doubled integers keep the halves exact.
fn fold_check<const R: usize, const N: usize>(shape: &[usize; R], d: &[u8; N], out: &[f64], fill: f64) {
    assert!(out.len() == N);
    let mut t = 0usize;
    let mut j = 0;
    while j < R {
        t += shape[j] - 1;
        j += 1;
    }
    let mut p = 0;
    while p < N {
        let s = index_sum(shape, p);
        let q = mirror(shape, p);
        let pair = (d[p] as u32 + d[q] as u32) as f64;
        if 2 * s < t {
            assert!(out[p] == pair);
        } else if 2 * s == t {
            assert!(2.0 * out[p] == pair);
        } else {
            assert!(is_fill(out[p], fill));
        }
        p += 1;
    }
}

fn fold_case<const R: usize, const N: usize>(shape: [usize; R]) {
    let d: [u8; N] = small::<N>(8);
    let scs = scs_of(shape, &d);
    let fill = fill_choice();
    let folded = scs.fold().into_spectrum(fill);
    assert!(shape_is(&folded, &shape));
    fold_check(&shape, &d, folded.inner().as_slice(), fill);
    kani::cover!(true, "reached end");
    core::mem::forget(folded);
    core::mem::forget(scs);
}

macro_rules! fold_h {
    ($name:ident, $r:literal, $n:literal, $shape:expr, $unw:literal) => {
        #[kani::proof]
        #[kani::unwind($unw)]
        fn $name() {
            fold_case::<$r, $n>($shape)
        }
    };
}

//@@BEGIN FOLD_CASES@@
// @harness props=C05 tier=quick group=f64 bounds=shape=[1],cells=0..7,fill={nan,0,-1,inf} timeout=1200
fold_h!(fold_1, 1, 1, [1], 4);

// @harness props=C05 tier=quick group=f64 bounds=shape=[2],cells=0..7,fill={nan,0,-1,inf} timeout=1200
fold_h!(fold_2, 1, 2, [2], 5);

// @harness props=C05 tier=quick group=f64 bounds=shape=[4],cells=0..7,fill={nan,0,-1,inf} timeout=1200
fold_h!(fold_4, 1, 4, [4], 7);

// @harness props=C05 tier=quick group=f64 bounds=shape=[5],cells=0..7,fill={nan,0,-1,inf} timeout=1200
fold_h!(fold_5, 1, 5, [5], 8);

// @harness props=C05 tier=quick group=f64 bounds=shape=[7],cells=0..7,fill={nan,0,-1,inf} timeout=1200
fold_h!(fold_7, 1, 7, [7], 10);

// @harness props=C05 tier=quick group=f64 bounds=shape=[1,1],cells=0..7,fill={nan,0,-1,inf} timeout=1200
fold_h!(fold_1x1, 2, 1, [1, 1], 5);

// @harness props=C05 tier=quick group=f64 bounds=shape=[2,2],cells=0..7,fill={nan,0,-1,inf} timeout=1200
fold_h!(fold_2x2, 2, 4, [2, 2], 7);

// @harness props=C05 tier=quick group=f64 bounds=shape=[2,3],cells=0..7,fill={nan,0,-1,inf} timeout=1200
fold_h!(fold_2x3, 2, 6, [2, 3], 9);

// @harness props=C05 tier=quick group=f64 bounds=shape=[3,3],cells=0..7,fill={nan,0,-1,inf} timeout=1200
fold_h!(fold_3x3, 2, 9, [3, 3], 12);

// @harness props=C05 tier=quick group=f64 bounds=shape=[2,4],cells=0..7,fill={nan,0,-1,inf} timeout=1200
fold_h!(fold_2x4, 2, 8, [2, 4], 11);

// @harness props=C05 tier=quick group=f64 bounds=shape=[3,4],cells=0..7,fill={nan,0,-1,inf} timeout=1200
fold_h!(fold_3x4, 2, 12, [3, 4], 15);

// @harness props=C05 tier=quick group=f64 bounds=shape=[1,3],cells=0..7,fill={nan,0,-1,inf} timeout=1200
fold_h!(fold_1x3, 2, 3, [1, 3], 6);

// @harness props=C05 tier=quick group=f64 bounds=shape=[2,1,2],cells=0..7,fill={nan,0,-1,inf} timeout=1200
fold_h!(fold_2x1x2, 3, 4, [2, 1, 2], 7);

// @harness props=C05 tier=quick group=f64 bounds=shape=[1,2,3],cells=0..7,fill={nan,0,-1,inf} timeout=1200
fold_h!(fold_1x2x3, 3, 6, [1, 2, 3], 9);

// @harness props=C05 tier=quick group=f64 bounds=shape=[2,3,2],cells=0..7,fill={nan,0,-1,inf} timeout=1200
fold_h!(fold_2x3x2, 3, 12, [2, 3, 2], 15);

// @harness props=C05 tier=quick group=f64 bounds=shape=[2,2,2],cells=0..7,fill={nan,0,-1,inf} timeout=1200
fold_h!(fold_2x2x2, 3, 8, [2, 2, 2], 11);

// @harness props=C05 tier=quick group=f64 bounds=shape=[2,2,2,2],cells=0..7,fill={nan,0,-1,inf} timeout=1200
fold_h!(fold_2x2x2x2, 4, 16, [2, 2, 2, 2], 19);

// @harness props=C05 tier=thorough group=f64 bounds=shape=[3],cells=0..7,fill={nan,0,-1,inf} timeout=1200
fold_h!(fold_3, 1, 3, [3], 6);

// @harness props=C05 tier=thorough group=f64 bounds=shape=[6],cells=0..7,fill={nan,0,-1,inf} timeout=1200
fold_h!(fold_6, 1, 6, [6], 9);

// @harness props=C05 tier=thorough group=f64 bounds=shape=[3,5],cells=0..7,fill={nan,0,-1,inf} timeout=1200
fold_h!(fold_3x5, 2, 15, [3, 5], 18);

// @harness props=C05 tier=thorough group=f64 bounds=shape=[5,3],cells=0..7,fill={nan,0,-1,inf} timeout=1200
fold_h!(fold_5x3, 2, 15, [5, 3], 18);

// @harness props=C05 tier=thorough group=f64 bounds=shape=[4,4],cells=0..7,fill={nan,0,-1,inf} timeout=1200
fold_h!(fold_4x4, 2, 16, [4, 4], 19);

// @harness props=C05 tier=thorough group=f64 bounds=shape=[2,7],cells=0..7,fill={nan,0,-1,inf} timeout=1200
fold_h!(fold_2x7, 2, 14, [2, 7], 17);

// @harness props=C05 tier=thorough group=f64 bounds=shape=[3,3,3],cells=0..7,fill={nan,0,-1,inf} timeout=1200
fold_h!(fold_3x3x3, 3, 27, [3, 3, 3], 30);

// @harness props=C05 tier=thorough group=f64 bounds=shape=[3,2,4],cells=0..7,fill={nan,0,-1,inf} timeout=1200
fold_h!(fold_3x2x4, 3, 24, [3, 2, 4], 27);

// @harness props=C05 tier=thorough group=f64 bounds=shape=[1,2,1,3],cells=0..7,fill={nan,0,-1,inf} timeout=1200
fold_h!(fold_1x2x1x3, 4, 6, [1, 2, 1, 3], 9);

// @harness props=C05 tier=thorough group=f64 bounds=shape=[2,3,2,2],cells=0..7,fill={nan,0,-1,inf} timeout=1200
fold_h!(fold_2x3x2x2, 4, 24, [2, 3, 2, 2], 27);

// @harness props=C05 tier=thorough group=f64 bounds=shape=[3,1,2,2],cells=0..7,fill={nan,0,-1,inf} timeout=1200
fold_h!(fold_3x1x2x2, 4, 12, [3, 1, 2, 2], 15);

//@@END FOLD_CASES@@

/// With fill 0: total mass preserved, folding twice = folding once, and the folded spectrum is
/// identical whether or not the input is first mirrored (REF/ALT swapped).
fn fold_laws_case<const R: usize, const N: usize>(shape: [usize; R]) {
    let d: [u8; N] = small::<N>(4);
    let scs = scs_of(shape, &d);
    let once = scs.fold().into_spectrum(0.0);
    // mass: every folded cell is a multiple of 1/2, so twice the cell converts to an integer exactly
    let mut mass2 = 0u32;
    let mut total = 0u32;
    let mut p = 0;
    while p < N {
        let c2 = 2.0 * once.inner().as_slice()[p];
        let i = c2 as u32;
        assert!(i as f64 == c2);
        mass2 += i;
        total += d[p] as u32;
        p += 1;
    }
    assert!(mass2 == 2 * total);
    // idempotent
    let twice = once.fold().into_spectrum(0.0);
    let mut p = 0;
    while p < N {
        assert!(twice.inner().as_slice()[p] == once.inner().as_slice()[p]);
        p += 1;
    }
    // polarity: fold(mirror x) == fold(x)
    let mut md = [0u8; N];
    let mut p = 0;
    while p < N {
        md[mirror(&shape, p)] = d[p];
        p += 1;
    }
    let mscs = scs_of(shape, &md);
    let mfold = mscs.fold().into_spectrum(0.0);
    let mut p = 0;
    while p < N {
        assert!(mfold.inner().as_slice()[p] == once.inner().as_slice()[p]);
        p += 1;
    }
    kani::cover!(true, "reached end");
    core::mem::forget(mfold);
    core::mem::forget(mscs);
    core::mem::forget(twice);
    core::mem::forget(once);
    core::mem::forget(scs);
}

/// fold is a function of the spectrum alone: folding two spectra with the same number of cells but
/// different shapes one after the other gives each its own fold
// @harness props=C05 tier=quick group=f64 bounds=shapes=[2,3]-then-[3,2]-then-[6],cells=0..7,fill=0 timeout=1200
#[kani::proof]
#[kani::unwind(10)]
fn fold_sequence_same_cell_count() {
    let a: [u8; 6] = small::<6>(8);
    let b: [u8; 6] = small::<6>(8);
    let c: [u8; 6] = small::<6>(8);
    let (sa, sb, sc) = (scs_of([2, 3], &a), scs_of([3, 2], &b), scs_of([6], &c));
    let fa = sa.fold().into_spectrum(0.0);
    let fb = sb.fold().into_spectrum(0.0);
    let fc = sc.fold().into_spectrum(0.0);
    fold_check(&[2, 3], &a, fa.inner().as_slice(), 0.0);
    fold_check(&[3, 2], &b, fb.inner().as_slice(), 0.0);
    fold_check(&[6], &c, fc.inner().as_slice(), 0.0);
    kani::cover!(true, "reached end");
    core::mem::forget(fa);
    core::mem::forget(fb);
    core::mem::forget(fc);
    core::mem::forget(sa);
    core::mem::forget(sb);
    core::mem::forget(sc);
}

macro_rules! fold_laws_h {
    ($name:ident, $r:literal, $n:literal, $shape:expr, $unw:literal) => {
        #[kani::proof]
        #[kani::unwind($unw)]
        fn $name() {
            fold_laws_case::<$r, $n>($shape)
        }
    };
}

//@@BEGIN FOLD_LAWS_CASES@@
// @harness props=C05 tier=quick group=f64 bounds=shape=[4],cells=0..3,fill=0;mass,idempotence,polarity timeout=1200
fold_laws_h!(fold_laws_4, 1, 4, [4], 7);

// @harness props=C05 tier=quick group=f64 bounds=shape=[5],cells=0..3,fill=0;mass,idempotence,polarity timeout=1200
fold_laws_h!(fold_laws_5, 1, 5, [5], 8);

// @harness props=C05 tier=quick group=f64 bounds=shape=[2,3],cells=0..3,fill=0;mass,idempotence,polarity timeout=1200
fold_laws_h!(fold_laws_2x3, 2, 6, [2, 3], 9);

// @harness props=C05 tier=quick group=f64 bounds=shape=[1,3],cells=0..3,fill=0;mass,idempotence,polarity timeout=1200
fold_laws_h!(fold_laws_1x3, 2, 3, [1, 3], 6);

// @harness props=C05 tier=thorough group=f64 bounds=shape=[3,3],cells=0..3,fill=0;mass,idempotence,polarity timeout=1200
fold_laws_h!(fold_laws_3x3, 2, 9, [3, 3], 12);

// @harness props=C05 tier=thorough group=f64 bounds=shape=[2,2,2],cells=0..3,fill=0;mass,idempotence,polarity timeout=1200
fold_laws_h!(fold_laws_2x2x2, 3, 8, [2, 2, 2], 11);

// @harness props=C05 tier=thorough group=f64 bounds=shape=[2,3,2],cells=0..3,fill=0;mass,idempotence,polarity timeout=1200
fold_laws_h!(fold_laws_2x3x2, 3, 12, [2, 3, 2], 15);

// @harness props=C05 tier=thorough group=f64 bounds=shape=[3,4],cells=0..3,fill=0;mass,idempotence,polarity timeout=1200
fold_laws_h!(fold_laws_3x4, 2, 12, [3, 4], 15);

//@@END FOLD_LAWS_CASES@@

// ------------------------------------------------------------------------------------------
// C04 marginalization
// ------------------------------------------------------------------------------------------

/// R rank, N cells, K removed axes (in the order given), V = R - K kept axes, M output cells.
fn marginalize_case<const R: usize, const N: usize, const K: usize, const V: usize, const M: usize>(
    shape: [usize; R],
    axes: [usize; K],
) {
    let d: [u8; N] = small::<N>(8);
    let scs = scs_of(shape, &d);
    let ax: Vec<Axis> = axes.iter().map(|&a| Axis(a)).collect();
    let got = scs.marginalize(&ax);
    let m = match got {
        Ok(m) => m,
        Err(_) => {
            assert!(false);
            return;
        }
    };
    // kept axes in original order
    let mut kept = [0usize; V];
    let mut mshape = [0usize; V];
    let mut v = 0;
    let mut j = 0;
    while j < R {
        let mut removed = false;
        let mut i = 0;
        while i < K {
            if axes[i] == j {
                removed = true;
            }
            i += 1;
        }
        if !removed {
            kept[v] = j;
            mshape[v] = shape[j];
            v += 1;
        }
        j += 1;
    }
    assert!(shape_is(&m, &mshape));
    // oracle: nested sums over the removed axes
    let mut acc = [0u32; M];
    let mut total = 0u32;
    let mut p = 0;
    while p < N {
        let idx = unrank(&shape, p);
        let mut kidx = [0usize; V];
        let mut v = 0;
        while v < V {
            kidx[v] = idx[kept[v]];
            v += 1;
        }
        acc[rank(&mshape, &kidx)] += d[p] as u32;
        total += d[p] as u32;
        p += 1;
    }
    let out = m.inner().as_slice();
    assert!(out.len() == M);
    let mut q = 0;
    while q < M {
        assert!(out[q] == acc[q] as f64);
        q += 1;
    }
    kani::cover!(true, "reached end");
    core::mem::forget(m);
    core::mem::forget(ax);
    core::mem::forget(scs);
}

macro_rules! marginalize_h {
    ($name:ident, $r:literal, $n:literal, $k:literal, $v:literal, $m:literal, $shape:expr, $axes:expr, $unw:literal) => {
        #[kani::proof]
        #[kani::unwind($unw)]
        #[kani::stub(RemovedAxis::<'_, Shape>::into_shape, model_into_shape)]
        fn $name() {
            marginalize_case::<$r, $n, $k, $v, $m>($shape, $axes)
        }
    };
}

//@@BEGIN MARGINALIZE_CASES@@
// @harness props=C04 tier=quick group=f64 bounds=shape=[2,3],remove=[0](in-this-order),cells=0..7 timeout=1200
marginalize_h!(marginalize_2x3_rm0, 2, 6, 1, 1, 3, [2, 3], [0], 9);

// @harness props=C04 tier=quick group=f64 bounds=shape=[2,3],remove=[1](in-this-order),cells=0..7 timeout=1200
marginalize_h!(marginalize_2x3_rm1, 2, 6, 1, 1, 2, [2, 3], [1], 9);

// @harness props=C04 tier=quick group=f64 bounds=shape=[2,3,2],remove=[0](in-this-order),cells=0..7 timeout=1200
marginalize_h!(marginalize_2x3x2_rm0, 3, 12, 1, 2, 6, [2, 3, 2], [0], 15);

// @harness props=C04 tier=quick group=f64 bounds=shape=[2,3,2],remove=[1](in-this-order),cells=0..7 timeout=1200
marginalize_h!(marginalize_2x3x2_rm1, 3, 12, 1, 2, 4, [2, 3, 2], [1], 15);

// @harness props=C04 tier=quick group=f64 bounds=shape=[2,3,2],remove=[2](in-this-order),cells=0..7 timeout=1200
marginalize_h!(marginalize_2x3x2_rm2, 3, 12, 1, 2, 6, [2, 3, 2], [2], 15);

// @harness props=C04 tier=quick group=f64 bounds=shape=[2,3,2],remove=[0,1](in-this-order),cells=0..7 timeout=1200
marginalize_h!(marginalize_2x3x2_rm01, 3, 12, 2, 1, 2, [2, 3, 2], [0, 1], 15);

// @harness props=C04 tier=quick group=f64 bounds=shape=[2,3,2],remove=[1,0](in-this-order),cells=0..7 timeout=1200
marginalize_h!(marginalize_2x3x2_rm10, 3, 12, 2, 1, 2, [2, 3, 2], [1, 0], 15);

// @harness props=C04 tier=quick group=f64 bounds=shape=[2,3,2],remove=[1,2](in-this-order),cells=0..7 timeout=1200
marginalize_h!(marginalize_2x3x2_rm12, 3, 12, 2, 1, 2, [2, 3, 2], [1, 2], 15);

// @harness props=C04 tier=quick group=f64 bounds=shape=[2,3,2],remove=[2,1](in-this-order),cells=0..7 timeout=1200
marginalize_h!(marginalize_2x3x2_rm21, 3, 12, 2, 1, 2, [2, 3, 2], [2, 1], 15);

// @harness props=C04 tier=quick group=f64 bounds=shape=[2,3,2],remove=[0,2](in-this-order),cells=0..7 timeout=1200
marginalize_h!(marginalize_2x3x2_rm02, 3, 12, 2, 1, 3, [2, 3, 2], [0, 2], 15);

// @harness props=C04 tier=quick group=f64 bounds=shape=[2,3,2],remove=[2,0](in-this-order),cells=0..7 timeout=1200
marginalize_h!(marginalize_2x3x2_rm20, 3, 12, 2, 1, 3, [2, 3, 2], [2, 0], 15);

// @harness props=C04 tier=quick group=f64 bounds=shape=[1,2,3],remove=[0](in-this-order),cells=0..7 timeout=1200
marginalize_h!(marginalize_1x2x3_rm0, 3, 6, 1, 2, 6, [1, 2, 3], [0], 9);

// @harness props=C04 tier=quick group=f64 bounds=shape=[1,2,3],remove=[1](in-this-order),cells=0..7 timeout=1200
marginalize_h!(marginalize_1x2x3_rm1, 3, 6, 1, 2, 3, [1, 2, 3], [1], 9);

// @harness props=C04 tier=quick group=f64 bounds=shape=[1,2,3],remove=[2](in-this-order),cells=0..7 timeout=1200
marginalize_h!(marginalize_1x2x3_rm2, 3, 6, 1, 2, 2, [1, 2, 3], [2], 9);

// @harness props=C04 tier=quick group=f64 bounds=shape=[1,2,3],remove=[0,2](in-this-order),cells=0..7 timeout=1200
marginalize_h!(marginalize_1x2x3_rm02, 3, 6, 2, 1, 2, [1, 2, 3], [0, 2], 9);

// @harness props=C04 tier=quick group=f64 bounds=shape=[1,2,3],remove=[2,1](in-this-order),cells=0..7 timeout=1200
marginalize_h!(marginalize_1x2x3_rm21, 3, 6, 2, 1, 1, [1, 2, 3], [2, 1], 9);

// @harness props=C04 tier=quick group=f64 bounds=shape=[2,3,1],remove=[1](in-this-order),cells=0..7 timeout=1200
marginalize_h!(marginalize_2x3x1_rm1, 3, 6, 1, 2, 2, [2, 3, 1], [1], 9);

// @harness props=C04 tier=quick group=f64 bounds=shape=[2,3,1],remove=[2](in-this-order),cells=0..7 timeout=1200
marginalize_h!(marginalize_2x3x1_rm2, 3, 6, 1, 2, 6, [2, 3, 1], [2], 9);

// @harness props=C04 tier=quick group=f64 bounds=shape=[2,3,1],remove=[1,2](in-this-order),cells=0..7 timeout=1200
marginalize_h!(marginalize_2x3x1_rm12, 3, 6, 2, 1, 2, [2, 3, 1], [1, 2], 9);

// @harness props=C04 tier=quick group=f64 bounds=shape=[2,3,1],remove=[2,1](in-this-order),cells=0..7 timeout=1200
marginalize_h!(marginalize_2x3x1_rm21, 3, 6, 2, 1, 2, [2, 3, 1], [2, 1], 9);

// @harness props=C04 tier=quick group=f64 bounds=shape=[3,1],remove=[0](in-this-order),cells=0..7 timeout=1200
marginalize_h!(marginalize_3x1_rm0, 2, 3, 1, 1, 1, [3, 1], [0], 6);

// @harness props=C04 tier=quick group=f64 bounds=shape=[3,1],remove=[1](in-this-order),cells=0..7 timeout=1200
marginalize_h!(marginalize_3x1_rm1, 2, 3, 1, 1, 3, [3, 1], [1], 6);

// @harness props=C04 tier=quick group=f64 bounds=shape=[2,2,1,1],remove=[1](in-this-order),cells=0..7 timeout=1200
marginalize_h!(marginalize_2x2x1x1_rm1, 4, 4, 1, 3, 2, [2, 2, 1, 1], [1], 7);

// @harness props=C04 tier=thorough group=f64 bounds=shape=[2,2,1,1],remove=[3,1](in-this-order),cells=0..7 timeout=1200
marginalize_h!(marginalize_2x2x1x1_rm31, 4, 4, 2, 2, 2, [2, 2, 1, 1], [3, 1], 7);

// @harness props=C04 tier=thorough group=f64 bounds=shape=[2,2,2,2],remove=[1,3](in-this-order),cells=0..7 timeout=1200
marginalize_h!(marginalize_2x2x2x2_rm13, 4, 16, 2, 2, 4, [2, 2, 2, 2], [1, 3], 19);

// @harness props=C04 tier=thorough group=f64 bounds=shape=[2,2,2,2],remove=[3,1](in-this-order),cells=0..7 timeout=1200
marginalize_h!(marginalize_2x2x2x2_rm31, 4, 16, 2, 2, 4, [2, 2, 2, 2], [3, 1], 19);

// @harness props=C04 tier=thorough group=f64 bounds=shape=[2,2,2,2],remove=[0,1,2](in-this-order),cells=0..7 timeout=1200
marginalize_h!(marginalize_2x2x2x2_rm012, 4, 16, 3, 1, 2, [2, 2, 2, 2], [0, 1, 2], 19);

// @harness props=C04 tier=thorough group=f64 bounds=shape=[2,2,2,2],remove=[2,0,1](in-this-order),cells=0..7 timeout=1200
marginalize_h!(marginalize_2x2x2x2_rm201, 4, 16, 3, 1, 2, [2, 2, 2, 2], [2, 0, 1], 19);

// @harness props=C04 tier=thorough group=f64 bounds=shape=[2,2,2,2],remove=[3,2,1](in-this-order),cells=0..7 timeout=1200
marginalize_h!(marginalize_2x2x2x2_rm321, 4, 16, 3, 1, 2, [2, 2, 2, 2], [3, 2, 1], 19);

// @harness props=C04 tier=thorough group=f64 bounds=shape=[2,2,2,2],remove=[0,3,1](in-this-order),cells=0..7 timeout=1200
marginalize_h!(marginalize_2x2x2x2_rm031, 4, 16, 3, 1, 2, [2, 2, 2, 2], [0, 3, 1], 19);

// @harness props=C04 tier=thorough group=f64 bounds=shape=[2,2,2,2],remove=[1,2,3](in-this-order),cells=0..7 timeout=1200
marginalize_h!(marginalize_2x2x2x2_rm123, 4, 16, 3, 1, 2, [2, 2, 2, 2], [1, 2, 3], 19);

// @harness props=C04 tier=thorough group=f64 bounds=shape=[2,2,2,2],remove=[3,0,2](in-this-order),cells=0..7 timeout=1200
marginalize_h!(marginalize_2x2x2x2_rm302, 4, 16, 3, 1, 2, [2, 2, 2, 2], [3, 0, 2], 19);

// @harness props=C04 tier=thorough group=f64 bounds=shape=[2,2,2,2],remove=[1,3,2](in-this-order),cells=0..7 timeout=1200
marginalize_h!(marginalize_2x2x2x2_rm132, 4, 16, 3, 1, 2, [2, 2, 2, 2], [1, 3, 2], 19);

// @harness props=C04 tier=thorough group=f64 bounds=shape=[2,2,2,2],remove=[0,2,1](in-this-order),cells=0..7 timeout=1200
marginalize_h!(marginalize_2x2x2x2_rm021, 4, 16, 3, 1, 2, [2, 2, 2, 2], [0, 2, 1], 19);

// @harness props=C04 tier=thorough group=f64 bounds=shape=[2,2,2,2],remove=[2,3,1](in-this-order),cells=0..7 timeout=1200
marginalize_h!(marginalize_2x2x2x2_rm231, 4, 16, 3, 1, 2, [2, 2, 2, 2], [2, 3, 1], 19);

// @harness props=C04 tier=quick group=f64 bounds=shape=[2,1,3,1],remove=[1,2,3](in-this-order),cells=0..7 timeout=1200
marginalize_h!(marginalize_2x1x3x1_rm123, 4, 6, 3, 1, 2, [2, 1, 3, 1], [1, 2, 3], 9);

// @harness props=C04 tier=quick group=f64 bounds=shape=[2,1,3,1],remove=[1,3,2](in-this-order),cells=0..7 timeout=1200
marginalize_h!(marginalize_2x1x3x1_rm132, 4, 6, 3, 1, 2, [2, 1, 3, 1], [1, 3, 2], 9);

// @harness props=C04 tier=quick group=f64 bounds=shape=[2,1,3,1],remove=[2,1,3](in-this-order),cells=0..7 timeout=1200
marginalize_h!(marginalize_2x1x3x1_rm213, 4, 6, 3, 1, 2, [2, 1, 3, 1], [2, 1, 3], 9);

// @harness props=C04 tier=quick group=f64 bounds=shape=[2,1,3,1],remove=[2,3,1](in-this-order),cells=0..7 timeout=1200
marginalize_h!(marginalize_2x1x3x1_rm231, 4, 6, 3, 1, 2, [2, 1, 3, 1], [2, 3, 1], 9);

// @harness props=C04 tier=quick group=f64 bounds=shape=[2,1,3,1],remove=[3,1,2](in-this-order),cells=0..7 timeout=1200
marginalize_h!(marginalize_2x1x3x1_rm312, 4, 6, 3, 1, 2, [2, 1, 3, 1], [3, 1, 2], 9);

// @harness props=C04 tier=quick group=f64 bounds=shape=[2,1,3,1],remove=[3,2,1](in-this-order),cells=0..7 timeout=1200
marginalize_h!(marginalize_2x1x3x1_rm321, 4, 6, 3, 1, 2, [2, 1, 3, 1], [3, 2, 1], 9);

// @harness props=C04 tier=quick group=f64 bounds=shape=[2,1,3,1],remove=[0,1,3](in-this-order),cells=0..7 timeout=1200
marginalize_h!(marginalize_2x1x3x1_rm013, 4, 6, 3, 1, 3, [2, 1, 3, 1], [0, 1, 3], 9);

// @harness props=C04 tier=quick group=f64 bounds=shape=[2,1,3,1],remove=[0,3,1](in-this-order),cells=0..7 timeout=1200
marginalize_h!(marginalize_2x1x3x1_rm031, 4, 6, 3, 1, 3, [2, 1, 3, 1], [0, 3, 1], 9);

// @harness props=C04 tier=quick group=f64 bounds=shape=[2,1,3,1],remove=[1,0,3](in-this-order),cells=0..7 timeout=1200
marginalize_h!(marginalize_2x1x3x1_rm103, 4, 6, 3, 1, 3, [2, 1, 3, 1], [1, 0, 3], 9);

// @harness props=C04 tier=quick group=f64 bounds=shape=[2,1,3,1],remove=[1,3,0](in-this-order),cells=0..7 timeout=1200
marginalize_h!(marginalize_2x1x3x1_rm130, 4, 6, 3, 1, 3, [2, 1, 3, 1], [1, 3, 0], 9);

// @harness props=C04 tier=quick group=f64 bounds=shape=[2,1,3,1],remove=[3,0,1](in-this-order),cells=0..7 timeout=1200
marginalize_h!(marginalize_2x1x3x1_rm301, 4, 6, 3, 1, 3, [2, 1, 3, 1], [3, 0, 1], 9);

// @harness props=C04 tier=quick group=f64 bounds=shape=[2,1,3,1],remove=[3,1,0](in-this-order),cells=0..7 timeout=1200
marginalize_h!(marginalize_2x1x3x1_rm310, 4, 6, 3, 1, 3, [2, 1, 3, 1], [3, 1, 0], 9);

// @harness props=C04 tier=quick group=f64 bounds=shape=[2,1,3,1],remove=[0,2](in-this-order),cells=0..7 timeout=1200
marginalize_h!(marginalize_2x1x3x1_rm02, 4, 6, 2, 2, 1, [2, 1, 3, 1], [0, 2], 9);

// @harness props=C04 tier=quick group=f64 bounds=shape=[2,1,3,1],remove=[2,0](in-this-order),cells=0..7 timeout=1200
marginalize_h!(marginalize_2x1x3x1_rm20, 4, 6, 2, 2, 1, [2, 1, 3, 1], [2, 0], 9);

// @harness props=C04 tier=quick group=f64 bounds=shape=[2,1,3,1],remove=[0,3,2](in-this-order),cells=0..7 timeout=1200
marginalize_h!(marginalize_2x1x3x1_rm032, 4, 6, 3, 1, 1, [2, 1, 3, 1], [0, 3, 2], 9);

// @harness props=C04 tier=quick group=f64 bounds=shape=[2,1,3,1],remove=[2,3,0](in-this-order),cells=0..7 timeout=1200
marginalize_h!(marginalize_2x1x3x1_rm230, 4, 6, 3, 1, 1, [2, 1, 3, 1], [2, 3, 0], 9);

// @harness props=C04 tier=quick group=f64 bounds=shape=[2,1,3,1],remove=[3,0,2](in-this-order),cells=0..7 timeout=1200
marginalize_h!(marginalize_2x1x3x1_rm302, 4, 6, 3, 1, 1, [2, 1, 3, 1], [3, 0, 2], 9);

// @harness props=C04 tier=thorough group=f64 bounds=shape=[3,2,4],remove=[0](in-this-order),cells=0..7 timeout=1200
marginalize_h!(marginalize_3x2x4_rm0, 3, 24, 1, 2, 8, [3, 2, 4], [0], 27);

// @harness props=C04 tier=thorough group=f64 bounds=shape=[3,2,4],remove=[1](in-this-order),cells=0..7 timeout=1200
marginalize_h!(marginalize_3x2x4_rm1, 3, 24, 1, 2, 12, [3, 2, 4], [1], 27);

// @harness props=C04 tier=thorough group=f64 bounds=shape=[3,2,4],remove=[2](in-this-order),cells=0..7 timeout=1200
marginalize_h!(marginalize_3x2x4_rm2, 3, 24, 1, 2, 6, [3, 2, 4], [2], 27);

// @harness props=C04 tier=thorough group=f64 bounds=shape=[3,2,4],remove=[0,1](in-this-order),cells=0..7 timeout=1200
marginalize_h!(marginalize_3x2x4_rm01, 3, 24, 2, 1, 4, [3, 2, 4], [0, 1], 27);

// @harness props=C04 tier=thorough group=f64 bounds=shape=[3,2,4],remove=[0,2](in-this-order),cells=0..7 timeout=1200
marginalize_h!(marginalize_3x2x4_rm02, 3, 24, 2, 1, 2, [3, 2, 4], [0, 2], 27);

// @harness props=C04 tier=thorough group=f64 bounds=shape=[3,2,4],remove=[1,0](in-this-order),cells=0..7 timeout=1200
marginalize_h!(marginalize_3x2x4_rm10, 3, 24, 2, 1, 4, [3, 2, 4], [1, 0], 27);

// @harness props=C04 tier=thorough group=f64 bounds=shape=[3,2,4],remove=[1,2](in-this-order),cells=0..7 timeout=1200
marginalize_h!(marginalize_3x2x4_rm12, 3, 24, 2, 1, 3, [3, 2, 4], [1, 2], 27);

// @harness props=C04 tier=thorough group=f64 bounds=shape=[3,2,4],remove=[2,0](in-this-order),cells=0..7 timeout=1200
marginalize_h!(marginalize_3x2x4_rm20, 3, 24, 2, 1, 2, [3, 2, 4], [2, 0], 27);

// @harness props=C04 tier=thorough group=f64 bounds=shape=[3,2,4],remove=[2,1](in-this-order),cells=0..7 timeout=1200
marginalize_h!(marginalize_3x2x4_rm21, 3, 24, 2, 1, 3, [3, 2, 4], [2, 1], 27);

// @harness props=C04 tier=thorough group=f64 bounds=shape=[2,1,2,2,2],remove=[0,4](in-this-order),cells=0..7 timeout=1200
marginalize_h!(marginalize_2x1x2x2x2_rm04, 5, 16, 2, 3, 4, [2, 1, 2, 2, 2], [0, 4], 19);

// @harness props=C04 tier=thorough group=f64 bounds=shape=[2,1,2,2,2],remove=[4,2,0](in-this-order),cells=0..7 timeout=1200
marginalize_h!(marginalize_2x1x2x2x2_rm420, 5, 16, 3, 2, 2, [2, 1, 2, 2, 2], [4, 2, 0], 19);

// @harness props=C04 tier=thorough group=f64 bounds=shape=[2,1,2,2,2],remove=[3,1](in-this-order),cells=0..7 timeout=1200
marginalize_h!(marginalize_2x1x2x2x2_rm31, 5, 16, 2, 3, 8, [2, 1, 2, 2, 2], [3, 1], 19);

// @harness props=C04 tier=quick group=f64 bounds=shape=[2,1,2,1,3],remove=[0,1,4,3](in-this-order),cells=0..7 timeout=1200
marginalize_h!(marginalize_2x1x2x1x3_rm0143, 5, 12, 4, 1, 2, [2, 1, 2, 1, 3], [0, 1, 4, 3], 15);

// @harness props=C04 tier=quick group=f64 bounds=shape=[2,1,2,1,3],remove=[0,1,3,2](in-this-order),cells=0..7 timeout=1200
marginalize_h!(marginalize_2x1x2x1x3_rm0132, 5, 12, 4, 1, 3, [2, 1, 2, 1, 3], [0, 1, 3, 2], 15);

// @harness props=C04 tier=quick group=f64 bounds=shape=[2,1,2,1,3],remove=[4,3,1,0](in-this-order),cells=0..7 timeout=1200
marginalize_h!(marginalize_2x1x2x1x3_rm4310, 5, 12, 4, 1, 2, [2, 1, 2, 1, 3], [4, 3, 1, 0], 15);

// @harness props=C04 tier=quick group=f64 bounds=shape=[2,1,2,1,3],remove=[2,4,1,3](in-this-order),cells=0..7 timeout=1200
marginalize_h!(marginalize_2x1x2x1x3_rm2413, 5, 12, 4, 1, 2, [2, 1, 2, 1, 3], [2, 4, 1, 3], 15);

// @harness props=C04 tier=thorough group=f64 bounds=shape=[2,1,2,1,3],remove=[3,4,0,1](in-this-order),cells=0..7 timeout=1200
marginalize_h!(marginalize_2x1x2x1x3_rm3401, 5, 12, 4, 1, 2, [2, 1, 2, 1, 3], [3, 4, 0, 1], 15);

// @harness props=C04 tier=thorough group=f64 bounds=shape=[2,1,2,1,3],remove=[1,0,3,4](in-this-order),cells=0..7 timeout=1200
marginalize_h!(marginalize_2x1x2x1x3_rm1034, 5, 12, 4, 1, 2, [2, 1, 2, 1, 3], [1, 0, 3, 4], 15);

// @harness props=C04 tier=thorough group=f64 bounds=shape=[2,1,2,1,3],remove=[0,1,2,3](in-this-order),cells=0..7 timeout=1200
marginalize_h!(marginalize_2x1x2x1x3_rm0123, 5, 12, 4, 1, 3, [2, 1, 2, 1, 3], [0, 1, 2, 3], 15);

//@@END MARGINALIZE_CASES@@

/// Validation on a 1x1x1x1 spectrum (the data path is a single cell): an axis list (length K
/// concrete, entries symbolic 0..5) is accepted iff it has no duplicate, no entry >= 4 and K < 4;
/// the error names a true reason.
fn marginalize_validation<const K: usize>() {
    let scs = Scs::new(vec![1.0], vec![1usize, 1, 1, 1]).unwrap();
    let a: [usize; K] = kani::any();
    let mut dup = false;
    let mut oob = false;
    let mut i = 0;
    while i < K {
        kani::assume(a[i] <= 5);
        if a[i] >= 4 {
            oob = true;
        }
        let mut j = i + 1;
        while j < K {
            if a[i] == a[j] {
                dup = true;
            }
            j += 1;
        }
        i += 1;
    }
    let too_many = K >= 4;
    let mut ax = [Axis(0); K];
    let mut i = 0;
    while i < K {
        ax[i] = Axis(a[i]);
        i += 1;
    }
    match scs.marginalize(&ax) {
        Ok(m) => {
            assert!(!dup && !oob && !too_many);
            assert!(m.dimensions() == 4 - K);
            assert!(m.elements() == 1);
            assert!(m.inner().as_slice()[0] == 1.0);
            core::mem::forget(m);
        }
        Err(MarginalizationError::DuplicateAxis { axis }) => {
            assert!(dup);
            let mut count = 0;
            let mut i = 0;
            while i < K {
                if a[i] == axis {
                    count += 1;
                }
                i += 1;
            }
            assert!(count >= 2);
        }
        Err(MarginalizationError::AxisOutOfBounds { axis, dimensions }) => {
            assert!(oob);
            assert!(axis >= 4 && dimensions == 4);
            let mut found = false;
            let mut i = 0;
            while i < K {
                if a[i] == axis {
                    found = true;
                }
                i += 1;
            }
            assert!(found);
        }
        Err(MarginalizationError::TooManyAxes { axes, dimensions }) => {
            assert!(too_many);
            assert!(axes == K && dimensions == 4);
        }
    }
    kani::cover!(K >= 4 || (!dup && !oob), "accepted (lists shorter than the rank)");
    kani::cover!(K == 0 || dup || oob || too_many, "rejected (non-empty lists)");
    core::mem::forget(scs);
}

/// continuation cut: the data path with a symbolic axis list is not explorable (DESIGN section 1);
/// what marginalize_unchecked computes for valid lists is the marginalize_<shape>_rm<axes> harnesses
fn stub_marginalize_unchecked<S: State>(s: &Spectrum<S>, axes: &[Axis]) -> Spectrum<S> {
    // a one-cell spectrum of the reduced rank
    let mut sv = Vec::new();
    let mut i = axes.len();
    while i < s.dimensions() {
        sv.push(1usize);
        i += 1;
    }
    Scs::new(vec![1.0], Shape(sv)).unwrap().into_state_unchecked()
}

macro_rules! marginalize_validation_h {
    ($name:ident, $k:literal, $unw:literal) => {
        #[kani::proof]
        #[kani::unwind($unw)]
        #[kani::stub(Spectrum::marginalize_unchecked, stub_marginalize_unchecked)]
        fn $name() {
            marginalize_validation::<$k>()
        }
    };
}

//@@BEGIN MARGINALIZE_VALIDATION_CASES@@
// @harness props=C04,C17 tier=quick group=f64 bounds=shape=[1,1,1,1],axis-list-length=0,entries=0..5 timeout=1200
marginalize_validation_h!(marginalize_validation_len0, 0, 10);

// @harness props=C04,C17 tier=quick group=f64 bounds=shape=[1,1,1,1],axis-list-length=1,entries=0..5 timeout=1200
marginalize_validation_h!(marginalize_validation_len1, 1, 10);

// @harness props=C04,C17 tier=quick group=f64 bounds=shape=[1,1,1,1],axis-list-length=2,entries=0..5 timeout=1200
marginalize_validation_h!(marginalize_validation_len2, 2, 10);

// @harness props=C04,C17 tier=quick group=f64 bounds=shape=[1,1,1,1],axis-list-length=3,entries=0..5 timeout=1200
marginalize_validation_h!(marginalize_validation_len3, 3, 10);

// @harness props=C04,C17 tier=quick group=f64 bounds=shape=[1,1,1,1],axis-list-length=4,entries=0..5 timeout=1200
marginalize_validation_h!(marginalize_validation_len4, 4, 10);

// @harness props=C04,C17 tier=thorough group=f64 bounds=shape=[1,1,1,1],axis-list-length=5,entries=0..5 timeout=1200
marginalize_validation_h!(marginalize_validation_len5, 5, 10);

//@@END MARGINALIZE_VALIDATION_CASES@@

// ------------------------------------------------------------------------------------------
// C03 projection: structure of Spectrum::project (the pmf is abstracted by a pure table H)
// ------------------------------------------------------------------------------------------

fn h_stub(size: u64, successes: u64, draws: u64, observed: u64) -> f64 {
    ((size + 2 * successes + 3 * draws + 4 * observed) % 5) as f64
}
#[cfg(not(kv_replay))]
fn h_ref(size: usize, successes: usize, draws: usize, observed: usize) -> f64 {
    ((size + 2 * successes + 3 * draws + 4 * observed) % 5) as f64
}
/// native replay: no stub is applied, so the reference is the exact hypergeometric probability
#[cfg(kv_replay)]
fn h_ref(size: usize, successes: usize, draws: usize, observed: usize) -> f64 {
    fn c(n: usize, k: usize) -> u128 {
        if k > n {
            return 0;
        }
        let mut r: u128 = 1;
        for i in 0..k {
            r = r * (n - i) as u128 / (i + 1) as u128;
        }
        r
    }
    if observed > draws || successes > size || draws > size {
        return 0.0;
    }
    (c(successes, observed) * c(size - successes, draws - observed)) as f64 / c(size, draws) as f64
}
#[cfg(not(kv_replay))]
fn same(a: f64, b: f64) -> bool {
    a == b
}
#[cfg(kv_replay)]
fn same(a: f64, b: f64) -> bool {
    close(a, b)
}

/// out[k'] = Σ_k x[k] · Π_j H(n_j, k_j, m_j, k'_j)   (n_j = source length - 1, m_j = target length - 1)
fn project_case<const R: usize, const N: usize, const M: usize>(from: [usize; R], to: [usize; R]) {
    let d: [u8; N] = small::<N>(4);
    let scs = scs_of(from, &d);
    let mut tv = Vec::with_capacity(R);
    let mut j = 0;
    while j < R {
        tv.push(to[j]);
        j += 1;
    }
    let p = match scs.project(Shape(tv)) {
        Ok(p) => p,
        Err(_) => {
            assert!(false);
            return;
        }
    };
    assert!(shape_is(&p, &to));
    let out = p.inner().as_slice();
    assert!(out.len() == M);
    let mut q = 0;
    while q < M {
        let kq = unrank(&to, q);
        let mut acc = 0.0f64;
        let mut s = 0;
        while s < N {
            let ks = unrank(&from, s);
            let mut w = 1.0f64;
            let mut j = 0;
            while j < R {
                w *= h_ref(from[j] - 1, ks[j], to[j] - 1, kq[j]);
                j += 1;
            }
            acc += d[s] as f64 * w;
            s += 1;
        }
        assert!(same(out[q], acc));
        q += 1;
    }
    kani::cover!(true, "reached end");
    core::mem::forget(p);
    core::mem::forget(scs);
}

macro_rules! project_h {
    ($name:ident, $r:literal, $n:literal, $m:literal, $from:expr, $to:expr, $unw:literal) => {
        #[kani::proof]
        #[kani::unwind($unw)]
        #[kani::stub(crate::utils::hypergeometric_pmf, h_stub)]
        fn $name() {
            project_case::<$r, $n, $m>($from, $to)
        }
    };
}

//@@BEGIN PROJECT_CASES@@
// @harness props=C03,C02 tier=quick group=f64 bounds=source=[3],target=[1],cells=0..3,pmf=table-stub timeout=1800
project_h!(project_structure_3_to_1, 1, 3, 1, [3], [1], 6);

// @harness props=C03,C02 tier=quick group=f64 bounds=source=[3],target=[2],cells=0..3,pmf=table-stub timeout=1800
project_h!(project_structure_3_to_2, 1, 3, 2, [3], [2], 6);

// @harness props=C03,C02 tier=quick group=f64 bounds=source=[3],target=[3],cells=0..3,pmf=table-stub timeout=1800
project_h!(project_structure_3_to_3, 1, 3, 3, [3], [3], 6);

// @harness props=C03,C02 tier=quick group=f64 bounds=source=[5],target=[3],cells=0..3,pmf=table-stub timeout=1800
project_h!(project_structure_5_to_3, 1, 5, 3, [5], [3], 8);

// @harness props=C03,C02 tier=thorough group=f64 bounds=source=[7],target=[4],cells=0..3,pmf=table-stub timeout=1800
project_h!(project_structure_7_to_4, 1, 7, 4, [7], [4], 10);

// @harness props=C03,C02 tier=quick group=f64 bounds=source=[2],target=[1],cells=0..3,pmf=table-stub timeout=1800
project_h!(project_structure_2_to_1, 1, 2, 1, [2], [1], 5);

// @harness props=C03,C02 tier=quick group=f64 bounds=source=[3,2],target=[2,2],cells=0..3,pmf=table-stub timeout=1800
project_h!(project_structure_3x2_to_2x2, 2, 6, 4, [3, 2], [2, 2], 9);

// @harness props=C03,C02 tier=quick group=f64 bounds=source=[2,3],target=[2,2],cells=0..3,pmf=table-stub timeout=1800
project_h!(project_structure_2x3_to_2x2, 2, 6, 4, [2, 3], [2, 2], 9);

// @harness props=C03,C02 tier=thorough group=f64 bounds=source=[3,3],target=[2,3],cells=0..3,pmf=table-stub timeout=1800
project_h!(project_structure_3x3_to_2x3, 2, 9, 6, [3, 3], [2, 3], 12);

// @harness props=C03,C02 tier=quick group=f64 bounds=source=[3,3],target=[1,1],cells=0..3,pmf=table-stub timeout=1800
project_h!(project_structure_3x3_to_1x1, 2, 9, 1, [3, 3], [1, 1], 12);

// @harness props=C03,C02 tier=thorough group=f64 bounds=source=[3,3],target=[3,3],cells=0..3,pmf=table-stub timeout=1800
project_h!(project_structure_3x3_to_3x3, 2, 9, 9, [3, 3], [3, 3], 12);

// @harness props=C03,C02 tier=quick group=f64 bounds=source=[2,2,2],target=[2,1,2],cells=0..3,pmf=table-stub timeout=1800
project_h!(project_structure_2x2x2_to_2x1x2, 3, 8, 4, [2, 2, 2], [2, 1, 2], 11);

// @harness props=C03,C02 tier=thorough group=f64 bounds=source=[2,3,2],target=[2,2,1],cells=0..3,pmf=table-stub timeout=1800
project_h!(project_structure_2x3x2_to_2x2x1, 3, 12, 4, [2, 3, 2], [2, 2, 1], 15);

// @harness props=C03,C02 tier=thorough group=f64 bounds=source=[3,2,3],target=[2,2,2],cells=0..3,pmf=table-stub timeout=1800
project_h!(project_structure_3x2x3_to_2x2x2, 3, 18, 8, [3, 2, 3], [2, 2, 2], 21);

// @harness props=C03,C02 tier=thorough group=f64 bounds=source=[2,2,2,2],target=[1,2,1,2],cells=0..3,pmf=table-stub timeout=1800
project_h!(project_structure_2x2x2x2_to_1x2x1x2, 4, 16, 4, [2, 2, 2, 2], [1, 2, 1, 2], 19);

//@@END PROJECT_CASES@@

// ------------------------------------------------------------------------------------------
// C13 normalize
// ------------------------------------------------------------------------------------------

/// cells 0..7 whose sum is a power of two 2^k (k = 0..5): out[i] * 2^k == x[i] exactly (ratios are
/// preserved and the entries sum to one).
fn normalize_case<const R: usize, const N: usize>(shape: [usize; R]) {
    let d: [u8; N] = small::<N>(8);
    let mut total = 0u32;
    let mut p = 0;
    while p < N {
        total += d[p] as u32;
        p += 1;
    }
    let k: u32 = kani::any();
    kani::assume(k <= 5 && total == (1u32 << k));
    let mut scs = scs_of(shape, &d);
    scs.normalize();
    let out = scs.inner().as_slice();
    let scale = (1u32 << k) as f64;
    let mut p = 0;
    while p < N {
        assert!(out[p] * scale == d[p] as f64);
        p += 1;
    }
    kani::cover!(k >= 2, "a sum of at least four");
    kani::cover!(k == 0, "already normalised");
    core::mem::forget(scs);
}

macro_rules! normalize_h {
    ($name:ident, $r:literal, $n:literal, $shape:expr, $unw:literal) => {
        #[kani::proof]
        #[kani::unwind($unw)]
        fn $name() {
            normalize_case::<$r, $n>($shape)
        }
    };
}

// @harness props=C13 tier=quick group=f64 bounds=shape=[4],cells=0..7,sum=2^k(k<=5) timeout=900
normalize_h!(normalize_exact_4, 1, 4, [4], 8);
// @harness props=C13 tier=quick group=f64 bounds=shape=[2,3],cells=0..7,sum=2^k(k<=5) timeout=900
normalize_h!(normalize_exact_2x3, 2, 6, [2, 3], 10);
// @harness props=C13 tier=thorough group=f64 bounds=shape=[2,2,2],cells=0..7,sum=2^k(k<=5) timeout=1800
normalize_h!(normalize_exact_2x2x2, 3, 8, [2, 2, 2], 12);

/// general sums (not powers of two): entries sum to one and ratios are preserved, up to rounding
fn normalize_general<const N: usize>() {
    let d: [u8; N] = small::<N>(4);
    let mut total = 0u32;
    let mut p = 0;
    while p < N {
        total += d[p] as u32;
        p += 1;
    }
    kani::assume(total > 0);
    let mut scs = scs_of([N], &d);
    scs.normalize();
    let out = scs.inner().as_slice();
    let mut sum = 0.0f64;
    let mut p = 0;
    while p < N {
        sum += out[p];
        assert!(close(out[p] * total as f64, d[p] as f64));
        p += 1;
    }
    assert!(close(sum, 1.0));
    kani::cover!(total == 3, "a sum that is not a power of two");
    core::mem::forget(scs);
}

// @harness props=C13 tier=quick group=f64 bounds=shape=[3],cells=0..3,any-positive-sum,tolerance=1e-9 timeout=900
#[kani::proof]
#[kani::unwind(6)]
fn normalize_general_3() {
    normalize_general::<3>()
}

// ------------------------------------------------------------------------------------------
// C06 / C14 / C17 statistics
// ------------------------------------------------------------------------------------------

/// exact stand-in for utils::binomial (its ln/exp evaluation is numerics, DESIGN section 1)
fn binomial_exact(n: u64, k: u64) -> f64 {
    if k > n {
        return 0.0;
    }
    let mut r: u64 = 1;
    let mut i = 0;
    while i < k {
        r = r * (n - i) / (i + 1);
        i += 1;
    }
    r as f64
}
/// CBMC over-approximates powi (spurious NaN); the code only uses the exponent 2
fn powi_model(x: f64, k: i32) -> f64 {
    let mut r = 1.0;
    let mut i = 0;
    while i < k {
        r *= x;
        i += 1;
    }
    r
}

fn sfs_of<const R: usize, const N: usize>(shape: [usize; R], d: &[u8; N]) -> Sfs {
    // un-normalised on purpose: no inexact division intervenes between the cells and the statistic
    scs_of(shape, d).into_state_unchecked()
}

fn harmonic_ref(n: usize) -> f64 {
    let mut a = 0.0;
    let mut i = 1;
    while i < n {
        a += 1.0 / i as f64;
        i += 1;
    }
    a
}

/// 1-D statistics against their definitions: S = Σ interior, pi = Σ x_i i(n-i)/C(n,2), theta_W = S/a_n
fn stat_1d_case<const N: usize>() {
    let d: [u8; N] = small::<N>(4);
    let scs = scs_of([N], &d);
    let n = N - 1;
    let mut s = 0u32;
    let mut pi_num = 0u32;
    let mut i = 1;
    while i < n {
        s += d[i] as u32;
        pi_num += d[i] as u32 * (i * (n - i)) as u32;
        i += 1;
    }
    assert!(scs.segregating_sites() == s as f64);
    let mut sum = 0u32;
    let mut i = 0;
    while i < N {
        sum += d[i] as u32;
        i += 1;
    }
    assert!(scs.sum() == sum as f64);
    match scs.pi() {
        Ok(v) => assert!(close(v, pi_num as f64 / ((n * (n - 1)) as f64 / 2.0))),
        Err(_) => assert!(false),
    }
    match scs.theta_watterson() {
        Ok(v) => assert!(close(v, s as f64 / harmonic_ref(n))),
        Err(_) => assert!(false),
    }
    // wrong dimensionality is an error, not a panic
    assert!(scs.pi_xy().is_err() && scs.king().is_err());
    kani::cover!(s > 0, "polymorphic");
    core::mem::forget(scs);
}

macro_rules! stat_1d_h {
    ($name:ident, $n:literal) => {
        #[kani::proof]
        #[kani::unwind(10)]
        #[kani::stub(crate::utils::binomial, binomial_exact)]
        fn $name() {
            stat_1d_case::<$n>()
        }
    };
}

// @harness props=C06 tier=quick group=f64 bounds=1-D,n=3(4-cells),cells=0..3,tolerance=1e-9 timeout=900
stat_1d_h!(stat_def_1d_n3, 4);
// @harness props=C06 tier=quick group=f64 bounds=1-D,n=4(5-cells),cells=0..3,tolerance=1e-9 timeout=900
stat_1d_h!(stat_def_1d_n4, 5);
// @harness props=C06 tier=thorough group=f64 bounds=1-D,n=6(7-cells),cells=0..3,tolerance=1e-9 timeout=1800
stat_1d_h!(stat_def_1d_n6, 7);

/// 2-D statistics on an A x B spectrum: pi_xy, f2 (exact in 1/den^2 units), Fst (Hudson, ratio of sums)
fn stat_2d_case<const A: usize, const B: usize, const N: usize>() {
    let d: [u8; N] = small::<N>(4);
    let scs = scs_of([A, B], &d);
    let (n1, n2) = (A - 1, B - 1);
    // pi_xy: mean between-population pairwise difference, over all cells but the two corners
    let mut num = 0u32;
    let mut i = 0;
    while i < A {
        let mut j = 0;
        while j < B {
            let corner = (i == 0 && j == 0) || (i == n1 && j == n2);
            if !corner {
                num += d[i * B + j] as u32 * (i * (n2 - j) + j * (n1 - i)) as u32;
            }
            j += 1;
        }
        i += 1;
    }
    match scs.pi_xy() {
        Ok(v) => assert!(close(v, num as f64 / (n1 * n2) as f64)),
        Err(_) => assert!(false),
    }
    // f2 = Σ x (f1 - f2)^2 with f = i/n
    let sfs = sfs_of([A, B], &d);
    let mut f2 = 0.0f64;
    let mut fst_num = 0.0f64;
    let mut fst_den = 0.0f64;
    let mut i = 0;
    while i < A {
        let mut j = 0;
        while j < B {
            let x = d[i * B + j] as f64;
            let (fi, fj) = (i as f64 / n1 as f64, j as f64 / n2 as f64);
            f2 += x * (fi - fj) * (fi - fj);
            let corner = (i == 0 && j == 0) || (i == n1 && j == n2);
            if !corner {
                // Hudson (Bhatia et al. 2013, eq. 10), n_i chromosomes in population i
                fst_num += x * ((fi - fj) * (fi - fj) - fi * (1.0 - fi) / (n1 as f64 - 1.0) - fj * (1.0 - fj) / (n2 as f64 - 1.0));
                fst_den += x * (fi * (1.0 - fj) + fj * (1.0 - fi));
            }
            j += 1;
        }
        i += 1;
    }
    match sfs.f2() {
        Ok(v) => assert!(close(v, f2)),
        Err(_) => assert!(false),
    }
    if n1 >= 2 && n2 >= 2 {
        match sfs.fst() {
            Ok(v) => assert!((fst_den == 0.0 && v != v) || (fst_den != 0.0 && close(v * fst_den, fst_num))),
            Err(_) => assert!(false),
        }
    }
    assert!(sfs.f3().is_err() && sfs.f4().is_err() && scs.pi().is_err() && scs.theta_watterson().is_err());
    kani::cover!(num > 0, "non-trivial");
    core::mem::forget(sfs);
    core::mem::forget(scs);
}

macro_rules! stat_2d_h {
    ($name:ident, $a:literal, $b:literal, $n:literal) => {
        #[kani::proof]
        #[kani::unwind(18)]
        #[kani::stub(f64::powi, powi_model)]
        fn $name() {
            stat_2d_case::<$a, $b, $n>()
        }
    };
}

// @harness props=C06 tier=quick group=f64 bounds=2x3,cells=0..3,tolerance=1e-9 timeout=1800
stat_2d_h!(stat_def_2d_2x3, 2, 3, 6);
// @harness props=C06 tier=quick group=f64 bounds=3x3,cells=0..3,tolerance=1e-9 timeout=1800
stat_2d_h!(stat_def_2d_3x3, 3, 3, 9);
/// S (segregating sites) on any shape: every cell but the first (no population carries ALT) and
/// the last (every population is fixed for ALT) - in particular the mixed corners of a joint
/// spectrum (fixed differences) count, and length-1 axes change nothing
fn stat_s_case<const R: usize, const N: usize>(shape: [usize; R]) {
    let d: [u8; N] = small::<N>(4);
    let scs = scs_of(shape, &d);
    let mut s = 0u32;
    let mut i = 1;
    while i + 1 < N {
        s += d[i] as u32;
        i += 1;
    }
    assert!(scs.segregating_sites() == s as f64);
    kani::cover!(N < 3 || (s > 0 && d[0] > 0), "non-trivial");
    core::mem::forget(scs);
}

macro_rules! stat_s_h {
    ($name:ident, $r:literal, $n:literal, $shape:expr) => {
        #[kani::proof]
        #[kani::unwind(18)]
        fn $name() {
            stat_s_case::<$r, $n>($shape)
        }
    };
}

// @harness props=C06 tier=quick group=f64 bounds=2x3,cells=0..3 timeout=900
stat_s_h!(stat_def_s_2x3, 2, 6, [2, 3]);
// @harness props=C06 tier=quick group=f64 bounds=3x3,cells=0..3 timeout=900
stat_s_h!(stat_def_s_3x3, 2, 9, [3, 3]);
// @harness props=C06 tier=quick group=f64 bounds=2x2x2,cells=0..3 timeout=900
stat_s_h!(stat_def_s_2x2x2, 3, 8, [2, 2, 2]);
// @harness props=C06 tier=quick group=f64 bounds=1x3,cells=0..3 timeout=900
stat_s_h!(stat_def_s_1x3, 2, 3, [1, 3]);
// @harness props=C06 tier=quick group=f64 bounds=3x1x2,cells=0..3 timeout=900
stat_s_h!(stat_def_s_3x1x2, 3, 6, [3, 1, 2]);
// @harness props=C06 tier=quick group=f64 bounds=1x1,cells=0..3 timeout=900
stat_s_h!(stat_def_s_1x1, 2, 1, [1, 1]);

/// S does not look at the two monomorphic cells: with 2^53 sites in each of them (where f64 has no
/// room left for the interior mass) S is still exactly the interior sum
fn stat_s_big_case<const R: usize, const N: usize>(shape: [usize; R]) {
    let d: [u8; N] = small::<N>(4);
    let mut x = as_f64(&d);
    x[0] = 9007199254740992.0;
    x[N - 1] = 9007199254740992.0;
    let scs = Scs::new(x.to_vec(), shape.to_vec()).unwrap();
    let mut s = 0u32;
    let mut i = 1;
    while i + 1 < N {
        s += d[i] as u32;
        i += 1;
    }
    assert!(scs.segregating_sites() == s as f64);
    kani::cover!(s % 2 == 1, "odd interior mass");
    core::mem::forget(scs);
}

macro_rules! stat_s_big_h {
    ($name:ident, $r:literal, $n:literal, $shape:expr) => {
        #[kani::proof]
        #[kani::unwind(18)]
        fn $name() {
            stat_s_big_case::<$r, $n>($shape)
        }
    };
}

// @harness props=C06,C14 tier=quick group=f64 bounds=5,monomorphic=2^53,interior=0..3 timeout=900
stat_s_big_h!(stat_def_s_big_5, 1, 5, [5]);
// @harness props=C06,C14 tier=quick group=f64 bounds=2x3,monomorphic=2^53,interior=0..3 timeout=900
stat_s_big_h!(stat_def_s_big_2x3, 2, 6, [2, 3]);

/// KING / R0 / R1 on 3x3: ratios of the two-individual genotype-pair counts (Waples et al. 2019);
/// compared as numerator/denominator cross-products so that no division is needed in the oracle.
fn ratio_is(v: f64, num: i32, den: i32) -> bool {
    if den == 0 {
        // x/0: +-inf or NaN, as IEEE division gives
        if num == 0 {
            v != v
        } else {
            v == (num as f64) / 0.0
        }
    } else {
        close(v * den as f64, num as f64)
    }
}

// @harness props=C06 tier=quick group=f64 bounds=3x3,cells=0..3 timeout=1800
#[kani::proof]
#[kani::unwind(20)] // King/R0/R1 compare the shape with [3, 3] by memcmp: 16 bytes
fn stat_def_kinship_3x3() {
    let d: [u8; 9] = small::<9>(4);
    let scs = scs_of([3, 3], &d);
    // index = (genotype of individual 1, genotype of individual 2)
    let c = |i: usize, j: usize| d[i * 3 + j] as i32;
    let king_num = c(1, 1) - 2 * (c(0, 2) + c(2, 0));
    let king_den = c(0, 1) + c(1, 0) + 2 * c(1, 1) + c(1, 2) + c(2, 1);
    let r0_num = c(0, 2) + c(2, 0);
    let r1_den = c(0, 1) + c(0, 2) + c(1, 0) + c(1, 2) + c(2, 0) + c(2, 1);
    match scs.king() {
        Ok(k) => assert!(ratio_is(k, king_num, king_den)),
        Err(_) => assert!(false),
    }
    match scs.r0() {
        Ok(r) => assert!(ratio_is(r, r0_num, c(1, 1))),
        Err(_) => assert!(false),
    }
    match scs.r1() {
        Ok(r) => assert!(ratio_is(r, c(1, 1), r1_den)),
        Err(_) => assert!(false),
    }
    kani::cover!(king_den > 0 && king_num != 0, "non-trivial");
    core::mem::forget(scs);
}

/// f3 / f4 on small 3-D / 4-D spectra against the site-average definition
fn stat_f3_case<const A: usize, const B: usize, const C: usize, const N: usize>() {
    let d: [u8; N] = small::<N>(4);
    let sfs = sfs_of([A, B, C], &d);
    let mut f3 = 0.0f64;
    let mut p = 0;
    while p < N {
        let k = unrank(&[A, B, C], p);
        let (fa, fb, fc) = (k[0] as f64 / (A - 1) as f64, k[1] as f64 / (B - 1) as f64, k[2] as f64 / (C - 1) as f64);
        f3 += d[p] as f64 * (fa - fb) * (fa - fc);
        p += 1;
    }
    match sfs.f3() {
        Ok(v) => assert!(close(v, f3)),
        Err(_) => assert!(false),
    }
    assert!(sfs.f2().is_err() && sfs.f4().is_err() && sfs.fst().is_err());
    kani::cover!(true, "reached end");
    core::mem::forget(sfs);
}

// @harness props=C06 tier=quick group=f64 bounds=2x3x2,cells=0..3,tolerance=1e-9 timeout=1800
#[kani::proof]
#[kani::unwind(16)]
fn stat_def_f3_2x3x2() {
    stat_f3_case::<2, 3, 2, 12>()
}

// @harness props=C06 tier=quick group=f64 bounds=2x2x3x2,cells=0..1,tolerance=1e-9 timeout=1800
#[kani::proof]
#[kani::unwind(28)]
fn stat_def_f4_2x2x3x2() {
    let d: [u8; 24] = small::<24>(2);
    let shape = [2usize, 2, 3, 2];
    let sfs = sfs_of(shape, &d);
    let mut f4 = 0.0f64;
    let mut p = 0;
    while p < 24 {
        let k = unrank(&shape, p);
        let f = [k[0] as f64, k[1] as f64, k[2] as f64 / 2.0, k[3] as f64];
        f4 += d[p] as f64 * (f[0] - f[1]) * (f[2] - f[3]);
        p += 1;
    }
    match sfs.f4() {
        Ok(v) => assert!(close(v, f4)),
        Err(_) => assert!(false),
    }
    kani::cover!(true, "reached end");
    core::mem::forget(sfs);
}

// ------------------------------------------------------------------------------------------
// C14 invariances
// ------------------------------------------------------------------------------------------

fn eqf(a: f64, b: f64) -> bool {
    a == b || (a != a && b != b)
}

fn closef(a: f64, b: f64) -> bool {
    close(a, b) || (a != a && b != b) || a == b
}

/// folding with fill zero leaves pi, theta_W and S unchanged (1-D)
fn inv_fold_1d<const N: usize>() {
    let d: [u8; N] = small::<N>(4);
    let scs = scs_of([N], &d);
    let f = scs.fold().into_spectrum(0.0);
    assert!(closef(scs.segregating_sites(), f.segregating_sites()));
    match (scs.pi(), f.pi(), scs.theta_watterson(), f.theta_watterson()) {
        (Ok(a), Ok(b), Ok(c), Ok(e)) => {
            assert!(closef(a, b));
            assert!(closef(c, e));
        }
        _ => assert!(false),
    }
    kani::cover!(true, "reached end");
    core::mem::forget(f);
    core::mem::forget(scs);
}

// @harness props=C14 tier=quick group=f64 bounds=1-D,4-cells,cells=0..3,tolerance=1e-9 timeout=1800
#[kani::proof]
#[kani::unwind(10)]
#[kani::stub(crate::utils::binomial, binomial_exact)]
fn inv_fold_1d_4() {
    inv_fold_1d::<4>()
}

// @harness props=C14 tier=quick group=f64 bounds=1-D,5-cells,cells=0..3,tolerance=1e-9 timeout=1800
#[kani::proof]
#[kani::unwind(10)]
#[kani::stub(crate::utils::binomial, binomial_exact)]
fn inv_fold_1d_5() {
    inv_fold_1d::<5>()
}

/// folding with fill zero leaves pi_xy and f2 (and Fst) unchanged (2-D)
fn inv_fold_2d<const A: usize, const B: usize, const N: usize>(with_fst: bool) {
    let d: [u8; N] = small::<N>(4);
    let scs = scs_of([A, B], &d);
    let f = scs.fold().into_spectrum(0.0);
    match (scs.pi_xy(), f.pi_xy()) {
        (Ok(a), Ok(b)) => assert!(closef(a, b)),
        _ => assert!(false),
    }
    let s1: Sfs = scs.clone().into_state_unchecked();
    let s2: Sfs = f.clone().into_state_unchecked();
    match (s1.f2(), s2.f2()) {
        (Ok(a), Ok(b)) => assert!(closef(a, b)),
        _ => assert!(false),
    }
    if with_fst {
        match (s1.fst(), s2.fst()) {
            (Ok(a), Ok(b)) => assert!(closef(a, b)),
            _ => assert!(false),
        }
    }
    kani::cover!(true, "reached end");
    core::mem::forget(s1);
    core::mem::forget(s2);
    core::mem::forget(f);
    core::mem::forget(scs);
}

// @harness props=C14 tier=quick group=f64 bounds=2x3,cells=0..3,pi_xy+f2,tolerance=1e-9 timeout=1800
#[kani::proof]
#[kani::unwind(12)]
#[kani::stub(f64::powi, powi_model)]
fn inv_fold_2d_2x3() {
    inv_fold_2d::<2, 3, 6>(false)
}

// @harness props=C14 tier=thorough group=f64 bounds=3x3,cells=0..3,pi_xy+f2+fst,tolerance=1e-9 timeout=3000
#[kani::proof]
#[kani::unwind(14)]
#[kani::stub(f64::powi, powi_model)]
fn inv_fold_2d_3x3() {
    inv_fold_2d::<3, 3, 9>(true)
}

// @harness props=C14 tier=thorough group=f64 bounds=3x3,cells=0..3,king+r0+r1-under-fold timeout=1800
#[kani::proof]
#[kani::unwind(20)]
fn inv_fold_kinship() {
    let d: [u8; 9] = small::<9>(4);
    let scs = scs_of([3, 3], &d);
    let f = scs.fold().into_spectrum(0.0);
    match (scs.king(), f.king(), scs.r0(), f.r0(), scs.r1(), f.r1()) {
        (Ok(a), Ok(b), Ok(c), Ok(e), Ok(g), Ok(h)) => {
            assert!(closef(a, b));
            assert!(closef(c, e));
            assert!(closef(g, h));
        }
        _ => assert!(false),
    }
    kani::cover!(true, "reached end");
    core::mem::forget(f);
    core::mem::forget(scs);
}

/// the two monomorphic entries (first and last cell) do not matter for pi, theta_W, S (1-D)
// @harness props=C14 tier=quick group=f64 bounds=1-D,5-cells,interior=0..3,ends=0..255 timeout=1800
#[kani::proof]
#[kani::unwind(10)]
#[kani::stub(crate::utils::binomial, binomial_exact)]
fn inv_monomorphic_1d_5() {
    let mut a: [u8; 5] = small::<5>(4);
    let mut b = a;
    a[0] = kani::any();
    a[4] = kani::any();
    b[0] = kani::any();
    b[4] = kani::any();
    let (x, y) = (scs_of([5], &a), scs_of([5], &b));
    assert!(eqf(x.segregating_sites(), y.segregating_sites()));
    match (x.pi(), y.pi(), x.theta_watterson(), y.theta_watterson()) {
        (Ok(p1), Ok(p2), Ok(t1), Ok(t2)) => {
            assert!(eqf(p1, p2));
            assert!(eqf(t1, t2));
        }
        _ => assert!(false),
    }
    kani::cover!(a[0] != b[0] && a[4] != b[4], "different monomorphic entries");
    core::mem::forget(x);
    core::mem::forget(y);
}

// @harness props=C14 tier=thorough group=f64 bounds=1-D,5-cells,interior=0..3,ends=0..255,D-statistics timeout=2400
#[kani::proof]
#[kani::unwind(10)]
#[kani::stub(crate::utils::binomial, binomial_exact)]
#[kani::stub(f64::powi, powi_model)]
fn inv_monomorphic_d_5() {
    let mut a: [u8; 5] = small::<5>(4);
    let mut b = a;
    a[0] = kani::any();
    a[4] = kani::any();
    b[0] = kani::any();
    b[4] = kani::any();
    let (x, y) = (scs_of([5], &a), scs_of([5], &b));
    match (x.d_tajima(), y.d_tajima(), x.d_fu_li(), y.d_fu_li()) {
        (Ok(p1), Ok(p2), Ok(t1), Ok(t2)) => {
            assert!(eqf(p1, p2));
            assert!(eqf(t1, t2));
        }
        _ => assert!(false),
    }
    kani::cover!(a[0] != b[0], "different monomorphic entries");
    core::mem::forget(x);
    core::mem::forget(y);
}

// @harness props=C14 tier=thorough group=f64 bounds=3x3,interior=0..3,corners=0..255,pi_xy+fst+king+r0+r1 timeout=2400
#[kani::proof]
#[kani::unwind(20)]
#[kani::stub(f64::powi, powi_model)]
fn inv_monomorphic_2d_3x3() {
    let mut a: [u8; 9] = small::<9>(4);
    let mut b = a;
    a[0] = kani::any();
    a[8] = kani::any();
    b[0] = kani::any();
    b[8] = kani::any();
    let (x, y) = (scs_of([3, 3], &a), scs_of([3, 3], &b));
    match (x.pi_xy(), y.pi_xy(), x.king(), y.king(), x.r0(), y.r0(), x.r1(), y.r1()) {
        (Ok(p1), Ok(p2), Ok(k1), Ok(k2), Ok(r1), Ok(r2), Ok(s1), Ok(s2)) => {
            assert!(eqf(p1, p2));
            assert!(eqf(k1, k2));
            assert!(eqf(r1, r2));
            assert!(eqf(s1, s2));
        }
        _ => assert!(false),
    }
    let (sx, sy): (Sfs, Sfs) = (x.clone().into_state_unchecked(), y.clone().into_state_unchecked());
    match (sx.fst(), sy.fst()) {
        (Ok(f1), Ok(f2)) => assert!(eqf(f1, f2)),
        _ => assert!(false),
    }
    kani::cover!(a[0] != b[0] && a[8] != b[8], "different monomorphic entries");
    core::mem::forget(sx);
    core::mem::forget(sy);
    core::mem::forget(x);
    core::mem::forget(y);
}

/// swapping the two populations (transposing) leaves f2, Fst, pi_xy unchanged
fn inv_swap<const A: usize, const B: usize, const N: usize>(with_fst: bool) {
    let d: [u8; N] = small::<N>(4);
    let mut t = [0u8; N];
    let mut i = 0;
    while i < A {
        let mut j = 0;
        while j < B {
            t[j * A + i] = d[i * B + j];
            j += 1;
        }
        i += 1;
    }
    let (x, y) = (scs_of([A, B], &d), scs_of([B, A], &t));
    match (x.pi_xy(), y.pi_xy()) {
        (Ok(a), Ok(b)) => assert!(closef(a, b)),
        _ => assert!(false),
    }
    let (sx, sy): (Sfs, Sfs) = (x.clone().into_state_unchecked(), y.clone().into_state_unchecked());
    match (sx.f2(), sy.f2()) {
        (Ok(a), Ok(b)) => assert!(closef(a, b)),
        _ => assert!(false),
    }
    if with_fst {
        match (sx.fst(), sy.fst()) {
            (Ok(a), Ok(b)) => assert!(closef(a, b)),
            _ => assert!(false),
        }
    }
    kani::cover!(true, "reached end");
    core::mem::forget(sx);
    core::mem::forget(sy);
    core::mem::forget(x);
    core::mem::forget(y);
}

// @harness props=C14 tier=quick group=f64 bounds=2x3<->3x2,cells=0..3,pi_xy+f2,tolerance=1e-9 timeout=1800
#[kani::proof]
#[kani::unwind(12)]
#[kani::stub(f64::powi, powi_model)]
fn inv_swap_2x3() {
    inv_swap::<2, 3, 6>(false)
}

/// multiplying by c in {2, 4, 1/2} (exact in f64): ratio statistics unchanged, linear ones scale
// @harness props=C14 tier=quick group=f64 bounds=1-D,5-cells,cells=0..3(even),c=2|4|0.5 timeout=1800
#[kani::proof]
#[kani::unwind(10)]
#[kani::stub(crate::utils::binomial, binomial_exact)]
fn inv_scale_1d_5() {
    let d: [u8; 5] = small::<5>(4);
    let c = match choice(3) {
        0 => 2.0,
        1 => 4.0,
        _ => 0.5,
    };
    let x = scs_of([5], &d);
    let mut v = [0.0f64; 5];
    let mut i = 0;
    while i < 5 {
        v[i] = d[i] as f64 * c;
        i += 1;
    }
    let y = Scs::new(v.to_vec(), vec![5usize]).unwrap();
    assert!(y.sum() == c * x.sum());
    assert!(y.segregating_sites() == c * x.segregating_sites());
    match (x.pi(), y.pi(), x.theta_watterson(), y.theta_watterson()) {
        (Ok(p1), Ok(p2), Ok(t1), Ok(t2)) => {
            assert!(closef(p2, c * p1));
            assert!(closef(t2, c * t1));
        }
        _ => assert!(false),
    }
    kani::cover!(true, "reached end");
    core::mem::forget(x);
    core::mem::forget(y);
}

// @harness props=C14 tier=thorough group=f64 bounds=3x3,cells=0..3,c=2|4|0.5,king+r0+r1+pi_xy timeout=2400
#[kani::proof]
#[kani::unwind(20)]
fn inv_scale_3x3() {
    let d: [u8; 9] = small::<9>(4);
    let c = match choice(3) {
        0 => 2.0,
        1 => 4.0,
        _ => 0.5,
    };
    let x = scs_of([3, 3], &d);
    let mut v = [0.0f64; 9];
    let mut i = 0;
    while i < 9 {
        v[i] = d[i] as f64 * c;
        i += 1;
    }
    let y = Scs::new(v.to_vec(), vec![3usize, 3]).unwrap();
    match (x.king(), y.king(), x.r0(), y.r0(), x.r1(), y.r1(), x.pi_xy(), y.pi_xy()) {
        (Ok(k1), Ok(k2), Ok(a1), Ok(a2), Ok(b1), Ok(b2), Ok(p1), Ok(p2)) => {
            // powers of two scale numerator and denominator exactly: the ratios are bit-equal
            assert!(eqf(k1, k2));
            assert!(eqf(a1, a2));
            assert!(eqf(b1, b2));
            assert!(closef(p2, c * p1));
        }
        _ => assert!(false),
    }
    kani::cover!(true, "reached end");
    core::mem::forget(x);
    core::mem::forget(y);
}

/// 2 f3(A;B,C) = f2(A,B) + f2(A,C) - f2(B,C) with the f2 values of the two-population marginals
/// (marginals by the harness' own sums; that the real marginalize equals them is C04)
// @harness props=C14 tier=thorough group=f64 bounds=2x2x3,cells=0..1,exact timeout=3000
#[kani::proof]
#[kani::unwind(16)]
#[kani::stub(f64::powi, powi_model)]
fn f3_from_marginal_f2_2x2x3() {
    let d: [u8; 12] = small::<12>(2);
    let shape = [2usize, 2, 3];
    let mut ab = [0u8; 4];
    let mut ac = [0u8; 6];
    let mut bc = [0u8; 6];
    let mut p = 0;
    while p < 12 {
        let k = unrank(&shape, p);
        ab[k[0] * 2 + k[1]] += d[p];
        ac[k[0] * 3 + k[2]] += d[p];
        bc[k[1] * 3 + k[2]] += d[p];
        p += 1;
    }
    let s3 = sfs_of(shape, &d);
    let (sab, sac, sbc) = (sfs_of([2, 2], &ab), sfs_of([2, 3], &ac), sfs_of([2, 3], &bc));
    match (s3.f3(), sab.f2(), sac.f2(), sbc.f2()) {
        (Ok(f3), Ok(x), Ok(y), Ok(z)) => assert!(2.0 * f3 == x + y - z),
        _ => assert!(false),
    }
    kani::cover!(true, "reached end");
    core::mem::forget(s3);
    core::mem::forget(sab);
    core::mem::forget(sac);
    core::mem::forget(sbc);
}

// ------------------------------------------------------------------------------------------
// C17: statistics on small / degenerate shapes never panic
// ------------------------------------------------------------------------------------------

/// all 14 statistics at library level on one spectrum: every call returns Ok or Err
fn all_stats<const R: usize, const N: usize>(shape: [usize; R]) {
    let d: [u8; N] = small::<N>(4);
    let scs = scs_of(shape, &d);
    let sfs = sfs_of(shape, &d);
    let _ = scs.sum();
    let _ = scs.segregating_sites();
    core::mem::forget(scs.pi());
    core::mem::forget(scs.theta_watterson());
    core::mem::forget(scs.d_tajima());
    core::mem::forget(scs.d_fu_li());
    core::mem::forget(scs.pi_xy());
    core::mem::forget(scs.king());
    core::mem::forget(scs.r0());
    core::mem::forget(scs.r1());
    core::mem::forget(sfs.f2());
    core::mem::forget(sfs.f3());
    core::mem::forget(sfs.f4());
    core::mem::forget(sfs.fst());
    kani::cover!(true, "reached end");
    core::mem::forget(sfs);
    core::mem::forget(scs);
}

macro_rules! stat_grid_h {
    ($name:ident, $r:literal, $n:literal, $shape:expr, $unw:literal) => {
        #[kani::proof]
        #[kani::unwind($unw)]
        #[kani::stub(crate::utils::binomial, binomial_exact)]
        #[kani::stub(f64::powi, powi_model)]
        fn $name() {
            all_stats::<$r, $n>($shape)
        }
    };
}

//@@BEGIN STAT_GRID_CASES@@
// @harness props=C17 tier=quick group=f64 role=ok bounds=shape=[4],cells=0..3,all-14-statistics timeout=1800
stat_grid_h!(stat_grid_4, 1, 4, [4], 20);

// @harness props=C17 tier=quick group=f64 role=ok bounds=shape=[5],cells=0..3,all-14-statistics timeout=1800
stat_grid_h!(stat_grid_5, 1, 5, [5], 20);

// @harness props=C17 tier=quick group=f64 role=degenerate bounds=shape=[3],cells=0..3,all-14-statistics timeout=1800
stat_grid_h!(stat_degenerate_3, 1, 3, [3], 20);

// @harness props=C17 tier=quick group=f64 role=degenerate bounds=shape=[2],cells=0..3,all-14-statistics timeout=1800
stat_grid_h!(stat_degenerate_2, 1, 2, [2], 20);

// @harness props=C17 tier=quick group=f64 role=degenerate bounds=shape=[1],cells=0..3,all-14-statistics timeout=1800
stat_grid_h!(stat_degenerate_1, 1, 1, [1], 20);

// @harness props=C17 tier=quick group=f64 role=degenerate bounds=shape=[0],cells=0..3,all-14-statistics timeout=1800
stat_grid_h!(stat_degenerate_0, 1, 0, [0], 20);

// @harness props=C17 tier=quick group=f64 role=ok bounds=shape=[2,2],cells=0..3,all-14-statistics timeout=1800
stat_grid_h!(stat_grid_2x2, 2, 4, [2, 2], 20);

// @harness props=C17 tier=quick group=f64 role=ok bounds=shape=[2,3],cells=0..3,all-14-statistics timeout=1800
stat_grid_h!(stat_grid_2x3, 2, 6, [2, 3], 20);

// @harness props=C17 tier=quick group=f64 role=ok bounds=shape=[3,3],cells=0..3,all-14-statistics timeout=1800
stat_grid_h!(stat_grid_3x3, 2, 9, [3, 3], 20);

// @harness props=C17 tier=thorough group=f64 role=ok bounds=shape=[4,2],cells=0..3,all-14-statistics timeout=1800
stat_grid_h!(stat_grid_4x2, 2, 8, [4, 2], 20);

// @harness props=C17 tier=quick group=f64 role=degenerate bounds=shape=[1,3],cells=0..3,all-14-statistics timeout=1800
stat_grid_h!(stat_degenerate_1x3, 2, 3, [1, 3], 20);

// @harness props=C17 tier=quick group=f64 role=degenerate bounds=shape=[3,1],cells=0..3,all-14-statistics timeout=1800
stat_grid_h!(stat_degenerate_3x1, 2, 3, [3, 1], 20);

// @harness props=C17 tier=thorough group=f64 role=degenerate bounds=shape=[1,1],cells=0..3,all-14-statistics timeout=1800
stat_grid_h!(stat_degenerate_1x1, 2, 1, [1, 1], 20);

// @harness props=C17 tier=quick group=f64 role=degenerate bounds=shape=[0,2],cells=0..3,all-14-statistics timeout=1800
stat_grid_h!(stat_degenerate_0x2, 2, 0, [0, 2], 20);

// @harness props=C17 tier=quick group=f64 role=ok bounds=shape=[2,2,2],cells=0..3,all-14-statistics timeout=1800
stat_grid_h!(stat_grid_2x2x2, 3, 8, [2, 2, 2], 20);

// @harness props=C17 tier=quick group=f64 role=ok bounds=shape=[1,2,2],cells=0..3,all-14-statistics timeout=1800
stat_grid_h!(stat_grid_1x2x2, 3, 4, [1, 2, 2], 20);

// @harness props=C17 tier=quick group=f64 role=ok bounds=shape=[3,3,1],cells=0..3,all-14-statistics timeout=1800
stat_grid_h!(stat_grid_3x3x1, 3, 9, [3, 3, 1], 20);

// @harness props=C17 tier=thorough group=f64 role=ok bounds=shape=[3,3,2],cells=0..3,all-14-statistics timeout=1800
stat_grid_h!(stat_grid_3x3x2, 3, 18, [3, 3, 2], 21);

// @harness props=C17 tier=thorough group=f64 role=ok bounds=shape=[3,3,1,1],cells=0..3,all-14-statistics timeout=1800
stat_grid_h!(stat_grid_3x3x1x1, 4, 9, [3, 3, 1, 1], 20);

// @harness props=C17 tier=thorough group=f64 role=ok bounds=shape=[2,1,3],cells=0..3,all-14-statistics timeout=1800
stat_grid_h!(stat_grid_2x1x3, 3, 6, [2, 1, 3], 20);

// @harness props=C17 tier=thorough group=f64 role=ok bounds=shape=[1,1,1],cells=0..3,all-14-statistics timeout=1800
stat_grid_h!(stat_grid_1x1x1, 3, 1, [1, 1, 1], 20);

// @harness props=C17 tier=thorough group=f64 role=ok bounds=shape=[2,2,2,2],cells=0..3,all-14-statistics timeout=1800
stat_grid_h!(stat_grid_2x2x2x2, 4, 16, [2, 2, 2, 2], 20);

// @harness props=C17 tier=quick group=f64 role=ok bounds=shape=[1,2,1,2],cells=0..3,all-14-statistics timeout=1800
stat_grid_h!(stat_grid_1x2x1x2, 4, 4, [1, 2, 1, 2], 20);

// @harness props=C17 tier=thorough group=f64 role=ok bounds=shape=[1,1,1,1],cells=0..3,all-14-statistics timeout=1800
stat_grid_h!(stat_grid_1x1x1x1, 4, 1, [1, 1, 1, 1], 20);

// @harness props=C17 tier=thorough group=f64 role=ok bounds=shape=[2,1,1,1,1],cells=0..3,all-14-statistics timeout=1800
stat_grid_h!(stat_grid_2x1x1x1x1, 5, 2, [2, 1, 1, 1, 1], 20);

//@@END STAT_GRID_CASES@@

/// Hudson's Fst with UNEQUAL sample sizes (n1 - 1 != n2 - 1); `swap` also checks the transposed
/// spectrum (symmetry under swapping the two populations)
fn fst_unequal(bound: u8, swap: bool) {
    const A: usize = 3;
    const B: usize = 4;
    let d: [u8; 12] = small::<12>(bound);
    let (n1, n2) = (A - 1, B - 1);
    let mut num = 0.0f64;
    let mut den = 0.0f64;
    let mut t = [0u8; 12];
    let mut i = 0;
    while i < A {
        let mut j = 0;
        while j < B {
            t[j * A + i] = d[i * B + j];
            let corner = (i == 0 && j == 0) || (i == n1 && j == n2);
            if !corner {
                let x = d[i * B + j] as f64;
                let (fi, fj) = (i as f64 / n1 as f64, j as f64 / n2 as f64);
                num += x * ((fi - fj) * (fi - fj) - fi * (1.0 - fi) / (n1 as f64 - 1.0) - fj * (1.0 - fj) / (n2 as f64 - 1.0));
                den += x * (fi * (1.0 - fj) + fj * (1.0 - fi));
            }
            j += 1;
        }
        i += 1;
    }
    let sfs = if swap { sfs_of([B, A], &t) } else { sfs_of([A, B], &d) };
    match sfs.fst() {
        Ok(v) => assert!((den == 0.0 && v != v) || (den != 0.0 && close(v * den, num))),
        _ => assert!(false),
    }
    kani::cover!(den > 0.0, "non-trivial");
    core::mem::forget(sfs);
}

// @harness props=C06,C14 tier=thorough group=f64 bounds=3x4,cells=0..1,tolerance=1e-9 timeout=1800
#[kani::proof]
#[kani::unwind(16)]
#[kani::stub(f64::powi, powi_model)]
fn stat_def_fst_3x4() {
    fst_unequal(2, false)
}

// @harness props=C14,C06 tier=thorough group=f64 bounds=4x3(transposed-3x4),cells=0..1,tolerance=1e-9 timeout=1800
#[kani::proof]
#[kani::unwind(16)]
#[kani::stub(f64::powi, powi_model)]
fn stat_def_fst_4x3_swapped() {
    fst_unequal(2, true)
}

/// spectra whose total is below one (frequencies, masked spectra): cells k/8
// @harness props=C13,C14 tier=quick group=f64 bounds=shape=[3],cells=k/8(k=0..7),any-positive-sum,tolerance=1e-9 timeout=1800
#[kani::proof]
#[kani::unwind(6)]
fn normalize_fractional_3() {
    let d: [u8; 3] = small::<3>(8);
    let total8 = d[0] as u32 + d[1] as u32 + d[2] as u32;
    kani::assume(total8 > 0);
    let x = [d[0] as f64 / 8.0, d[1] as f64 / 8.0, d[2] as f64 / 8.0];
    let mut scs = Scs::new(x.to_vec(), vec![3usize]).unwrap();
    scs.normalize();
    let out = scs.inner().as_slice();
    let total = total8 as f64 / 8.0;
    let mut sum = 0.0;
    let mut i = 0;
    while i < 3 {
        assert!(close(out[i] * total, x[i]));
        sum += out[i];
        i += 1;
    }
    assert!(close(sum, 1.0));
    kani::cover!(total8 < 8, "total below one");
    kani::cover!(total8 > 8, "total above one");
    core::mem::forget(scs);
}

/// C03: Spectrum::project itself (not only Projection::from_shapes) rejects targets of another
/// dimensionality, zero lengths and larger axes, and accepts the others.  Targets are concrete per
/// harness (they size the output).
fn project_target_case<const K: usize>(target: [usize; K], expect_ok: bool) {
    let d: [u8; 6] = small::<6>(4);
    let scs = scs_of([3, 2], &d);
    let mut tv = Vec::with_capacity(K);
    let mut j = 0;
    while j < K {
        tv.push(target[j]);
        j += 1;
    }
    let r = scs.project(Shape(tv));
    assert!(r.is_ok() == expect_ok);
    if let Ok(p) = &r {
        assert!(shape_is(p, &target));
    }
    kani::cover!(true, "reached end");
    core::mem::forget(r);
    core::mem::forget(scs);
}

macro_rules! project_target_h {
    ($name:ident, $k:literal, $target:expr, $ok:literal) => {
        #[kani::proof]
        #[kani::unwind(12)]
        #[kani::stub(crate::utils::hypergeometric_pmf, h_stub)]
        fn $name() {
            project_target_case::<$k>($target, $ok)
        }
    };
}

// @harness props=C03,C17 tier=quick group=f64 bounds=source=[3,2],target=[3],cells=0..3 timeout=900
project_target_h!(project_target_rank1_prefix, 1, [3], false);

// @harness props=C03,C17 tier=thorough group=f64 bounds=source=[3,2],target=[2],cells=0..3 timeout=900
project_target_h!(project_target_rank1_small, 1, [2], false);

// @harness props=C03,C17 tier=quick group=f64 bounds=source=[3,2],target=[3,2,1],cells=0..3 timeout=900
project_target_h!(project_target_rank3_prefix, 3, [3, 2, 1], false);

// @harness props=C03,C17 tier=thorough group=f64 bounds=source=[3,2],target=[2,2,2],cells=0..3 timeout=900
project_target_h!(project_target_rank3_other, 3, [2, 2, 2], false);

// @harness props=C03,C17 tier=quick group=f64 bounds=source=[3,2],target=[2,3],cells=0..3 timeout=900
project_target_h!(project_target_later_axis_larger, 2, [2, 3], false);

// @harness props=C03,C17 tier=quick group=f64 bounds=source=[3,2],target=[4,1],cells=0..3 timeout=900
project_target_h!(project_target_first_axis_larger, 2, [4, 1], false);

// @harness props=C03,C17 tier=quick group=f64 bounds=source=[3,2],target=[0,2],cells=0..3 timeout=900
project_target_h!(project_target_zero_first, 2, [0, 2], false);

// @harness props=C03,C17 tier=thorough group=f64 bounds=source=[3,2],target=[3,0],cells=0..3 timeout=900
project_target_h!(project_target_zero_last, 2, [3, 0], false);

// @harness props=C03,C17 tier=quick group=f64 bounds=source=[3,2],target=[3,2],cells=0..3 timeout=900
project_target_h!(project_target_same, 2, [3, 2], true);

// @harness props=C03,C17 tier=quick group=f64 bounds=source=[3,2],target=[1,1],cells=0..3 timeout=900
project_target_h!(project_target_smaller, 2, [1, 1], true);

// @harness props=C03,C17 tier=thorough group=f64 bounds=source=[3,2],target=[],cells=0..3 timeout=900
project_target_h!(project_target_empty, 0, [], false);

