// Child module of crate::spectrum.
// @inject crate=sfs-core file=core/src/spectrum.rs mod=kv_spectrum
//
// Full runs on concrete structure (DESIGN 2.1 form 3): shape / axis list concrete per harness,
// cell values symbolic small integers (exact in f64), integer oracles written from the property
// statements with a per-axis mirror / nested sums (never the implementation's flat-index tricks).
#![allow(unused_imports)]
use super::*;
use crate::array::shape::RemovedAxis;

#[path = "../util.rs"]
mod util;
use util::*;

fn model_into_shape<'a>(r: RemovedAxis<'a, Shape>) -> Shape
where
    'a: 'a,
{
    let n = r.len();
    let mut v = Vec::with_capacity(n);
    let mut i = 0;
    while i < n {
        v.push(*r.get(i).unwrap());
        i += 1;
    }
    Shape(v)
}

fn scs_of<const R: usize, const N: usize>(shape: [usize; R], d: &[u8; N]) -> Scs {
    let x = as_f64(d);
    Scs::new(x.to_vec(), shape.to_vec()).unwrap()
}

fn shape_is<const R: usize, S: State>(s: &Spectrum<S>, shape: &[usize; R]) -> bool {
    if s.shape().len() != R {
        return false;
    }
    let mut j = 0;
    while j < R {
        if s.shape()[j] != shape[j] {
            return false;
        }
        j += 1;
    }
    true
}

// ------------------------------------------------------------------------------------------
// C05 folding
// ------------------------------------------------------------------------------------------

fn fill_choice() -> f64 {
    match choice(4) {
        0 => f64::NAN,
        1 => 0.0,
        2 => -1.0,
        _ => f64::INFINITY,
    }
}

fn is_fill(v: f64, fill: f64) -> bool {
    if fill != fill {
        v != v
    } else {
        v == fill
    }
}

/// per-axis mirror of flat position p
fn mirror<const R: usize>(shape: &[usize; R], p: usize) -> usize {
    let k = unrank(shape, p);
    let mut m = [0usize; R];
    let mut j = 0;
    while j < R {
        m[j] = shape[j] - 1 - k[j];
        j += 1;
    }
    rank(shape, &m)
}

fn index_sum<const R: usize>(shape: &[usize; R], p: usize) -> usize {
    let k = unrank(shape, p);
    let mut s = 0;
    let mut j = 0;
    while j < R {
        s += k[j];
        j += 1;
    }
    s
}

/// out = fold(x).into_spectrum(fill) against the statement: s < T/2: x[k] + x[mirror k];
/// s = T/2: the average of the pair; s > T/2: fill.  Doubled integers keep the halves exact.
fn fold_check<const R: usize, const N: usize>(shape: &[usize; R], d: &[u8; N], out: &[f64], fill: f64) {
    assert!(out.len() == N);
    let mut t = 0usize;
    let mut j = 0;
    while j < R {
        t += shape[j] - 1;
        j += 1;
    }
    let mut p = 0;
    while p < N {
        let s = index_sum(shape, p);
        let q = mirror(shape, p);
        let pair = (d[p] as u32 + d[q] as u32) as f64;
        if 2 * s < t {
            assert!(out[p] == pair);
        } else if 2 * s == t {
            assert!(2.0 * out[p] == pair);
        } else {
            assert!(is_fill(out[p], fill));
        }
        p += 1;
    }
}

fn fold_case<const R: usize, const N: usize>(shape: [usize; R]) {
    let d: [u8; N] = small::<N>(8);
    let scs = scs_of(shape, &d);
    let fill = fill_choice();
    let folded = scs.fold().into_spectrum(fill);
    assert!(shape_is(&folded, &shape));
    fold_check(&shape, &d, folded.inner().as_slice(), fill);
    kani::cover!(true, "reached end");
    core::mem::forget(folded);
    core::mem::forget(scs);
}

macro_rules! fold_h {
    ($name:ident, $r:literal, $n:literal, $shape:expr, $unw:literal) => {
        #[kani::proof]
        #[kani::unwind($unw)]
        fn $name() {
            fold_case::<$r, $n>($shape)
        }
    };
}

//@@BEGIN FOLD_CASES@@
// @harness props=C05 tier=quick group=f64 bounds=shape=[1],cells=0..7,fill={nan,0,-1,inf} timeout=1200
fold_h!(fold_1, 1, 1, [1], 4);

// @harness props=C05 tier=quick group=f64 bounds=shape=[2],cells=0..7,fill={nan,0,-1,inf} timeout=1200
fold_h!(fold_2, 1, 2, [2], 5);

// @harness props=C05 tier=quick group=f64 bounds=shape=[4],cells=0..7,fill={nan,0,-1,inf} timeout=1200
fold_h!(fold_4, 1, 4, [4], 7);

// @harness props=C05 tier=quick group=f64 bounds=shape=[5],cells=0..7,fill={nan,0,-1,inf} timeout=1200
fold_h!(fold_5, 1, 5, [5], 8);

// @harness props=C05 tier=quick group=f64 bounds=shape=[7],cells=0..7,fill={nan,0,-1,inf} timeout=1200
fold_h!(fold_7, 1, 7, [7], 10);

// @harness props=C05 tier=quick group=f64 bounds=shape=[1,1],cells=0..7,fill={nan,0,-1,inf} timeout=1200
fold_h!(fold_1x1, 2, 1, [1, 1], 5);

// @harness props=C05 tier=quick group=f64 bounds=shape=[2,2],cells=0..7,fill={nan,0,-1,inf} timeout=1200
fold_h!(fold_2x2, 2, 4, [2, 2], 7);

// @harness props=C05 tier=quick group=f64 bounds=shape=[2,3],cells=0..7,fill={nan,0,-1,inf} timeout=1200
fold_h!(fold_2x3, 2, 6, [2, 3], 9);

// @harness props=C05 tier=quick group=f64 bounds=shape=[3,3],cells=0..7,fill={nan,0,-1,inf} timeout=1200
fold_h!(fold_3x3, 2, 9, [3, 3], 12);

// @harness props=C05 tier=quick group=f64 bounds=shape=[2,4],cells=0..7,fill={nan,0,-1,inf} timeout=1200
fold_h!(fold_2x4, 2, 8, [2, 4], 11);

// @harness props=C05 tier=quick group=f64 bounds=shape=[3,4],cells=0..7,fill={nan,0,-1,inf} timeout=1200
fold_h!(fold_3x4, 2, 12, [3, 4], 15);

// @harness props=C05 tier=quick group=f64 bounds=shape=[1,3],cells=0..7,fill={nan,0,-1,inf} timeout=1200
fold_h!(fold_1x3, 2, 3, [1, 3], 6);

// @harness props=C05 tier=quick group=f64 bounds=shape=[2,1,2],cells=0..7,fill={nan,0,-1,inf} timeout=1200
fold_h!(fold_2x1x2, 3, 4, [2, 1, 2], 7);

// @harness props=C05 tier=quick group=f64 bounds=shape=[1,2,3],cells=0..7,fill={nan,0,-1,inf} timeout=1200
fold_h!(fold_1x2x3, 3, 6, [1, 2, 3], 9);

// @harness props=C05 tier=quick group=f64 bounds=shape=[2,3,2],cells=0..7,fill={nan,0,-1,inf} timeout=1200
fold_h!(fold_2x3x2, 3, 12, [2, 3, 2], 15);

// @harness props=C05 tier=quick group=f64 bounds=shape=[2,2,2],cells=0..7,fill={nan,0,-1,inf} timeout=1200
fold_h!(fold_2x2x2, 3, 8, [2, 2, 2], 11);

// @harness props=C05 tier=quick group=f64 bounds=shape=[2,2,2,2],cells=0..7,fill={nan,0,-1,inf} timeout=1200
fold_h!(fold_2x2x2x2, 4, 16, [2, 2, 2, 2], 19);

// @harness props=C05 tier=thorough group=f64 bounds=shape=[3],cells=0..7,fill={nan,0,-1,inf} timeout=1200
fold_h!(fold_3, 1, 3, [3], 6);

// @harness props=C05 tier=thorough group=f64 bounds=shape=[6],cells=0..7,fill={nan,0,-1,inf} timeout=1200
fold_h!(fold_6, 1, 6, [6], 9);

// @harness props=C05 tier=thorough group=f64 bounds=shape=[3,5],cells=0..7,fill={nan,0,-1,inf} timeout=1200
fold_h!(fold_3x5, 2, 15, [3, 5], 18);

// @harness props=C05 tier=thorough group=f64 bounds=shape=[5,3],cells=0..7,fill={nan,0,-1,inf} timeout=1200
fold_h!(fold_5x3, 2, 15, [5, 3], 18);

// @harness props=C05 tier=thorough group=f64 bounds=shape=[4,4],cells=0..7,fill={nan,0,-1,inf} timeout=1200
fold_h!(fold_4x4, 2, 16, [4, 4], 19);

// @harness props=C05 tier=thorough group=f64 bounds=shape=[2,7],cells=0..7,fill={nan,0,-1,inf} timeout=1200
fold_h!(fold_2x7, 2, 14, [2, 7], 17);

// @harness props=C05 tier=thorough group=f64 bounds=shape=[3,3,3],cells=0..7,fill={nan,0,-1,inf} timeout=1200
fold_h!(fold_3x3x3, 3, 27, [3, 3, 3], 30);

// @harness props=C05 tier=thorough group=f64 bounds=shape=[3,2,4],cells=0..7,fill={nan,0,-1,inf} timeout=1200
fold_h!(fold_3x2x4, 3, 24, [3, 2, 4], 27);

// @harness props=C05 tier=thorough group=f64 bounds=shape=[1,2,1,3],cells=0..7,fill={nan,0,-1,inf} timeout=1200
fold_h!(fold_1x2x1x3, 4, 6, [1, 2, 1, 3], 9);

// @harness props=C05 tier=thorough group=f64 bounds=shape=[2,3,2,2],cells=0..7,fill={nan,0,-1,inf} timeout=1200
fold_h!(fold_2x3x2x2, 4, 24, [2, 3, 2, 2], 27);

// @harness props=C05 tier=thorough group=f64 bounds=shape=[3,1,2,2],cells=0..7,fill={nan,0,-1,inf} timeout=1200
fold_h!(fold_3x1x2x2, 4, 12, [3, 1, 2, 2], 15);

//@@END FOLD_CASES@@

/// With fill 0: total mass preserved, folding twice = folding once, and the folded spectrum is
/// identical whether or not the input is first mirrored (REF/ALT swapped).
fn fold_laws_case<const R: usize, const N: usize>(shape: [usize; R]) {
    let d: [u8; N] = small::<N>(4);
    let scs = scs_of(shape, &d);
    let once = scs.fold().into_spectrum(0.0);
    // mass: every folded cell is a multiple of 1/2, so twice the cell converts to an integer exactly
    let mut mass2 = 0u32;
    let mut total = 0u32;
    let mut p = 0;
    while p < N {
        let c2 = 2.0 * once.inner().as_slice()[p];
        let i = c2 as u32;
        assert!(i as f64 == c2);
        mass2 += i;
        total += d[p] as u32;
        p += 1;
    }
    assert!(mass2 == 2 * total);
    // idempotent
    let twice = once.fold().into_spectrum(0.0);
    let mut p = 0;
    while p < N {
        assert!(twice.inner().as_slice()[p] == once.inner().as_slice()[p]);
        p += 1;
    }
    // polarity: fold(mirror x) == fold(x)
    let mut md = [0u8; N];
    let mut p = 0;
    while p < N {
        md[mirror(&shape, p)] = d[p];
        p += 1;
    }
    let mscs = scs_of(shape, &md);
    let mfold = mscs.fold().into_spectrum(0.0);
    let mut p = 0;
    while p < N {
        assert!(mfold.inner().as_slice()[p] == once.inner().as_slice()[p]);
        p += 1;
    }
    kani::cover!(true, "reached end");
    core::mem::forget(mfold);
    core::mem::forget(mscs);
    core::mem::forget(twice);
    core::mem::forget(once);
    core::mem::forget(scs);
}

macro_rules! fold_laws_h {
    ($name:ident, $r:literal, $n:literal, $shape:expr, $unw:literal) => {
        #[kani::proof]
        #[kani::unwind($unw)]
        fn $name() {
            fold_laws_case::<$r, $n>($shape)
        }
    };
}

//@@BEGIN FOLD_LAWS_CASES@@
// @harness props=C05 tier=quick group=f64 bounds=shape=[4],cells=0..3,fill=0;mass,idempotence,polarity timeout=1200
fold_laws_h!(fold_laws_4, 1, 4, [4], 7);

// @harness props=C05 tier=quick group=f64 bounds=shape=[5],cells=0..3,fill=0;mass,idempotence,polarity timeout=1200
fold_laws_h!(fold_laws_5, 1, 5, [5], 8);

// @harness props=C05 tier=quick group=f64 bounds=shape=[2,3],cells=0..3,fill=0;mass,idempotence,polarity timeout=1200
fold_laws_h!(fold_laws_2x3, 2, 6, [2, 3], 9);

// @harness props=C05 tier=quick group=f64 bounds=shape=[1,3],cells=0..3,fill=0;mass,idempotence,polarity timeout=1200
fold_laws_h!(fold_laws_1x3, 2, 3, [1, 3], 6);

// @harness props=C05 tier=thorough group=f64 bounds=shape=[3,3],cells=0..3,fill=0;mass,idempotence,polarity timeout=1200
fold_laws_h!(fold_laws_3x3, 2, 9, [3, 3], 12);

// @harness props=C05 tier=thorough group=f64 bounds=shape=[2,2,2],cells=0..3,fill=0;mass,idempotence,polarity timeout=1200
fold_laws_h!(fold_laws_2x2x2, 3, 8, [2, 2, 2], 11);

// @harness props=C05 tier=thorough group=f64 bounds=shape=[2,3,2],cells=0..3,fill=0;mass,idempotence,polarity timeout=1200
fold_laws_h!(fold_laws_2x3x2, 3, 12, [2, 3, 2], 15);

// @harness props=C05 tier=thorough group=f64 bounds=shape=[3,4],cells=0..3,fill=0;mass,idempotence,polarity timeout=1200
fold_laws_h!(fold_laws_3x4, 2, 12, [3, 4], 15);

//@@END FOLD_LAWS_CASES@@

// ------------------------------------------------------------------------------------------
// C04 marginalization
// ------------------------------------------------------------------------------------------

/// R rank, N cells, K removed axes (in the order given), V = R - K kept axes, M output cells.
fn marginalize_case<const R: usize, const N: usize, const K: usize, const V: usize, const M: usize>(
    shape: [usize; R],
    axes: [usize; K],
) {
    let d: [u8; N] = small::<N>(8);
    let scs = scs_of(shape, &d);
    let ax: Vec<Axis> = axes.iter().map(|&a| Axis(a)).collect();
    let got = scs.marginalize(&ax);
    let m = match got {
        Ok(m) => m,
        Err(_) => {
            assert!(false);
            return;
        }
    };
    // kept axes in original order
    let mut kept = [0usize; V];
    let mut mshape = [0usize; V];
    let mut v = 0;
    let mut j = 0;
    while j < R {
        let mut removed = false;
        let mut i = 0;
        while i < K {
            if axes[i] == j {
                removed = true;
            }
            i += 1;
        }
        if !removed {
            kept[v] = j;
            mshape[v] = shape[j];
            v += 1;
        }
        j += 1;
    }
    assert!(shape_is(&m, &mshape));
    // oracle: nested sums over the removed axes
    let mut acc = [0u32; M];
    let mut total = 0u32;
    let mut p = 0;
    while p < N {
        let idx = unrank(&shape, p);
        let mut kidx = [0usize; V];
        let mut v = 0;
        while v < V {
            kidx[v] = idx[kept[v]];
            v += 1;
        }
        acc[rank(&mshape, &kidx)] += d[p] as u32;
        total += d[p] as u32;
        p += 1;
    }
    let out = m.inner().as_slice();
    assert!(out.len() == M);
    let mut q = 0;
    while q < M {
        assert!(out[q] == acc[q] as f64);
        q += 1;
    }
    kani::cover!(true, "reached end");
    core::mem::forget(m);
    core::mem::forget(ax);
    core::mem::forget(scs);
}

macro_rules! marginalize_h {
    ($name:ident, $r:literal, $n:literal, $k:literal, $v:literal, $m:literal, $shape:expr, $axes:expr, $unw:literal) => {
        #[kani::proof]
        #[kani::unwind($unw)]
        #[kani::stub(RemovedAxis::<'_, Shape>::into_shape, model_into_shape)]
        fn $name() {
            marginalize_case::<$r, $n, $k, $v, $m>($shape, $axes)
        }
    };
}

//@@BEGIN MARGINALIZE_CASES@@
// @harness props=C04 tier=quick group=f64 bounds=shape=[2,3],remove=[0](in-this-order),cells=0..7 timeout=1200
marginalize_h!(marginalize_2x3_rm0, 2, 6, 1, 1, 3, [2, 3], [0], 9);

// @harness props=C04 tier=quick group=f64 bounds=shape=[2,3],remove=[1](in-this-order),cells=0..7 timeout=1200
marginalize_h!(marginalize_2x3_rm1, 2, 6, 1, 1, 2, [2, 3], [1], 9);

// @harness props=C04 tier=quick group=f64 bounds=shape=[2,3,2],remove=[0](in-this-order),cells=0..7 timeout=1200
marginalize_h!(marginalize_2x3x2_rm0, 3, 12, 1, 2, 6, [2, 3, 2], [0], 15);

// @harness props=C04 tier=quick group=f64 bounds=shape=[2,3,2],remove=[1](in-this-order),cells=0..7 timeout=1200
marginalize_h!(marginalize_2x3x2_rm1, 3, 12, 1, 2, 4, [2, 3, 2], [1], 15);

// @harness props=C04 tier=quick group=f64 bounds=shape=[2,3,2],remove=[2](in-this-order),cells=0..7 timeout=1200
marginalize_h!(marginalize_2x3x2_rm2, 3, 12, 1, 2, 6, [2, 3, 2], [2], 15);

// @harness props=C04 tier=quick group=f64 bounds=shape=[2,3,2],remove=[0,1](in-this-order),cells=0..7 timeout=1200
marginalize_h!(marginalize_2x3x2_rm01, 3, 12, 2, 1, 2, [2, 3, 2], [0, 1], 15);

// @harness props=C04 tier=quick group=f64 bounds=shape=[2,3,2],remove=[1,0](in-this-order),cells=0..7 timeout=1200
marginalize_h!(marginalize_2x3x2_rm10, 3, 12, 2, 1, 2, [2, 3, 2], [1, 0], 15);

// @harness props=C04 tier=quick group=f64 bounds=shape=[2,3,2],remove=[1,2](in-this-order),cells=0..7 timeout=1200
marginalize_h!(marginalize_2x3x2_rm12, 3, 12, 2, 1, 2, [2, 3, 2], [1, 2], 15);

// @harness props=C04 tier=quick group=f64 bounds=shape=[2,3,2],remove=[2,1](in-this-order),cells=0..7 timeout=1200
marginalize_h!(marginalize_2x3x2_rm21, 3, 12, 2, 1, 2, [2, 3, 2], [2, 1], 15);

// @harness props=C04 tier=quick group=f64 bounds=shape=[2,3,2],remove=[0,2](in-this-order),cells=0..7 timeout=1200
marginalize_h!(marginalize_2x3x2_rm02, 3, 12, 2, 1, 3, [2, 3, 2], [0, 2], 15);

// @harness props=C04 tier=quick group=f64 bounds=shape=[2,3,2],remove=[2,0](in-this-order),cells=0..7 timeout=1200
marginalize_h!(marginalize_2x3x2_rm20, 3, 12, 2, 1, 3, [2, 3, 2], [2, 0], 15);

// @harness props=C04 tier=quick group=f64 bounds=shape=[1,2,3],remove=[0](in-this-order),cells=0..7 timeout=1200
marginalize_h!(marginalize_1x2x3_rm0, 3, 6, 1, 2, 6, [1, 2, 3], [0], 9);

// @harness props=C04 tier=quick group=f64 bounds=shape=[1,2,3],remove=[1](in-this-order),cells=0..7 timeout=1200
marginalize_h!(marginalize_1x2x3_rm1, 3, 6, 1, 2, 3, [1, 2, 3], [1], 9);

// @harness props=C04 tier=quick group=f64 bounds=shape=[1,2,3],remove=[2](in-this-order),cells=0..7 timeout=1200
marginalize_h!(marginalize_1x2x3_rm2, 3, 6, 1, 2, 2, [1, 2, 3], [2], 9);

// @harness props=C04 tier=quick group=f64 bounds=shape=[1,2,3],remove=[0,2](in-this-order),cells=0..7 timeout=1200
marginalize_h!(marginalize_1x2x3_rm02, 3, 6, 2, 1, 2, [1, 2, 3], [0, 2], 9);

// @harness props=C04 tier=quick group=f64 bounds=shape=[1,2,3],remove=[2,1](in-this-order),cells=0..7 timeout=1200
marginalize_h!(marginalize_1x2x3_rm21, 3, 6, 2, 1, 1, [1, 2, 3], [2, 1], 9);

// @harness props=C04 tier=quick group=f64 bounds=shape=[2,3,1],remove=[1](in-this-order),cells=0..7 timeout=1200
marginalize_h!(marginalize_2x3x1_rm1, 3, 6, 1, 2, 2, [2, 3, 1], [1], 9);

// @harness props=C04 tier=quick group=f64 bounds=shape=[2,3,1],remove=[2](in-this-order),cells=0..7 timeout=1200
marginalize_h!(marginalize_2x3x1_rm2, 3, 6, 1, 2, 6, [2, 3, 1], [2], 9);

// @harness props=C04 tier=quick group=f64 bounds=shape=[2,3,1],remove=[1,2](in-this-order),cells=0..7 timeout=1200
marginalize_h!(marginalize_2x3x1_rm12, 3, 6, 2, 1, 2, [2, 3, 1], [1, 2], 9);

// @harness props=C04 tier=quick group=f64 bounds=shape=[2,3,1],remove=[2,1](in-this-order),cells=0..7 timeout=1200
marginalize_h!(marginalize_2x3x1_rm21, 3, 6, 2, 1, 2, [2, 3, 1], [2, 1], 9);

// @harness props=C04 tier=quick group=f64 bounds=shape=[3,1],remove=[0](in-this-order),cells=0..7 timeout=1200
marginalize_h!(marginalize_3x1_rm0, 2, 3, 1, 1, 1, [3, 1], [0], 6);

// @harness props=C04 tier=quick group=f64 bounds=shape=[3,1],remove=[1](in-this-order),cells=0..7 timeout=1200
marginalize_h!(marginalize_3x1_rm1, 2, 3, 1, 1, 3, [3, 1], [1], 6);

// @harness props=C04 tier=quick group=f64 bounds=shape=[2,2,1,1],remove=[1](in-this-order),cells=0..7 timeout=1200
marginalize_h!(marginalize_2x2x1x1_rm1, 4, 4, 1, 3, 2, [2, 2, 1, 1], [1], 7);

// @harness props=C04 tier=thorough group=f64 bounds=shape=[2,2,1,1],remove=[3,1](in-this-order),cells=0..7 timeout=1200
marginalize_h!(marginalize_2x2x1x1_rm31, 4, 4, 2, 2, 2, [2, 2, 1, 1], [3, 1], 7);

// @harness props=C04 tier=quick group=f64 bounds=shape=[2,2,2,2],remove=[1,3](in-this-order),cells=0..7 timeout=1200
marginalize_h!(marginalize_2x2x2x2_rm13, 4, 16, 2, 2, 4, [2, 2, 2, 2], [1, 3], 19);

// @harness props=C04 tier=thorough group=f64 bounds=shape=[2,2,2,2],remove=[3,1](in-this-order),cells=0..7 timeout=1200
marginalize_h!(marginalize_2x2x2x2_rm31, 4, 16, 2, 2, 4, [2, 2, 2, 2], [3, 1], 19);

// @harness props=C04 tier=quick group=f64 bounds=shape=[2,2,2,2],remove=[0,1,2](in-this-order),cells=0..7 timeout=1200
marginalize_h!(marginalize_2x2x2x2_rm012, 4, 16, 3, 1, 2, [2, 2, 2, 2], [0, 1, 2], 19);

// @harness props=C04 tier=quick group=f64 bounds=shape=[2,2,2,2],remove=[2,0,1](in-this-order),cells=0..7 timeout=1200
marginalize_h!(marginalize_2x2x2x2_rm201, 4, 16, 3, 1, 2, [2, 2, 2, 2], [2, 0, 1], 19);

// @harness props=C04 tier=quick group=f64 bounds=shape=[2,2,2,2],remove=[3,2,1](in-this-order),cells=0..7 timeout=1200
marginalize_h!(marginalize_2x2x2x2_rm321, 4, 16, 3, 1, 2, [2, 2, 2, 2], [3, 2, 1], 19);

// @harness props=C04 tier=quick group=f64 bounds=shape=[2,2,2,2],remove=[0,3,1](in-this-order),cells=0..7 timeout=1200
marginalize_h!(marginalize_2x2x2x2_rm031, 4, 16, 3, 1, 2, [2, 2, 2, 2], [0, 3, 1], 19);

// @harness props=C04 tier=thorough group=f64 bounds=shape=[2,2,2,2],remove=[1,2,3](in-this-order),cells=0..7 timeout=1200
marginalize_h!(marginalize_2x2x2x2_rm123, 4, 16, 3, 1, 2, [2, 2, 2, 2], [1, 2, 3], 19);

// @harness props=C04 tier=thorough group=f64 bounds=shape=[2,2,2,2],remove=[3,0,2](in-this-order),cells=0..7 timeout=1200
marginalize_h!(marginalize_2x2x2x2_rm302, 4, 16, 3, 1, 2, [2, 2, 2, 2], [3, 0, 2], 19);

// @harness props=C04 tier=quick group=f64 bounds=shape=[2,2,2,2],remove=[1,3,2](in-this-order),cells=0..7 timeout=1200
marginalize_h!(marginalize_2x2x2x2_rm132, 4, 16, 3, 1, 2, [2, 2, 2, 2], [1, 3, 2], 19);

// @harness props=C04 tier=thorough group=f64 bounds=shape=[2,2,2,2],remove=[0,2,1](in-this-order),cells=0..7 timeout=1200
marginalize_h!(marginalize_2x2x2x2_rm021, 4, 16, 3, 1, 2, [2, 2, 2, 2], [0, 2, 1], 19);

// @harness props=C04 tier=thorough group=f64 bounds=shape=[2,2,2,2],remove=[2,3,1](in-this-order),cells=0..7 timeout=1200
marginalize_h!(marginalize_2x2x2x2_rm231, 4, 16, 3, 1, 2, [2, 2, 2, 2], [2, 3, 1], 19);

// @harness props=C04 tier=thorough group=f64 bounds=shape=[3,2,4],remove=[0](in-this-order),cells=0..7 timeout=1200
marginalize_h!(marginalize_3x2x4_rm0, 3, 24, 1, 2, 8, [3, 2, 4], [0], 27);

// @harness props=C04 tier=thorough group=f64 bounds=shape=[3,2,4],remove=[1](in-this-order),cells=0..7 timeout=1200
marginalize_h!(marginalize_3x2x4_rm1, 3, 24, 1, 2, 12, [3, 2, 4], [1], 27);

// @harness props=C04 tier=thorough group=f64 bounds=shape=[3,2,4],remove=[2](in-this-order),cells=0..7 timeout=1200
marginalize_h!(marginalize_3x2x4_rm2, 3, 24, 1, 2, 6, [3, 2, 4], [2], 27);

// @harness props=C04 tier=thorough group=f64 bounds=shape=[3,2,4],remove=[0,1](in-this-order),cells=0..7 timeout=1200
marginalize_h!(marginalize_3x2x4_rm01, 3, 24, 2, 1, 4, [3, 2, 4], [0, 1], 27);

// @harness props=C04 tier=thorough group=f64 bounds=shape=[3,2,4],remove=[0,2](in-this-order),cells=0..7 timeout=1200
marginalize_h!(marginalize_3x2x4_rm02, 3, 24, 2, 1, 2, [3, 2, 4], [0, 2], 27);

// @harness props=C04 tier=thorough group=f64 bounds=shape=[3,2,4],remove=[1,0](in-this-order),cells=0..7 timeout=1200
marginalize_h!(marginalize_3x2x4_rm10, 3, 24, 2, 1, 4, [3, 2, 4], [1, 0], 27);

// @harness props=C04 tier=thorough group=f64 bounds=shape=[3,2,4],remove=[1,2](in-this-order),cells=0..7 timeout=1200
marginalize_h!(marginalize_3x2x4_rm12, 3, 24, 2, 1, 3, [3, 2, 4], [1, 2], 27);

// @harness props=C04 tier=thorough group=f64 bounds=shape=[3,2,4],remove=[2,0](in-this-order),cells=0..7 timeout=1200
marginalize_h!(marginalize_3x2x4_rm20, 3, 24, 2, 1, 2, [3, 2, 4], [2, 0], 27);

// @harness props=C04 tier=thorough group=f64 bounds=shape=[3,2,4],remove=[2,1](in-this-order),cells=0..7 timeout=1200
marginalize_h!(marginalize_3x2x4_rm21, 3, 24, 2, 1, 3, [3, 2, 4], [2, 1], 27);

// @harness props=C04 tier=thorough group=f64 bounds=shape=[2,1,2,2,2],remove=[0,4](in-this-order),cells=0..7 timeout=1200
marginalize_h!(marginalize_2x1x2x2x2_rm04, 5, 16, 2, 3, 4, [2, 1, 2, 2, 2], [0, 4], 19);

// @harness props=C04 tier=thorough group=f64 bounds=shape=[2,1,2,2,2],remove=[4,2,0](in-this-order),cells=0..7 timeout=1200
marginalize_h!(marginalize_2x1x2x2x2_rm420, 5, 16, 3, 2, 2, [2, 1, 2, 2, 2], [4, 2, 0], 19);

// @harness props=C04 tier=thorough group=f64 bounds=shape=[2,1,2,2,2],remove=[3,1](in-this-order),cells=0..7 timeout=1200
marginalize_h!(marginalize_2x1x2x2x2_rm31, 5, 16, 2, 3, 8, [2, 1, 2, 2, 2], [3, 1], 19);

//@@END MARGINALIZE_CASES@@

/// Validation on a 1x1x1x1 spectrum (the data path is a single cell): an axis list (length K
/// concrete, entries symbolic 0..5) is accepted iff it has no duplicate, no entry >= 4 and K < 4;
/// the error names a true reason.
fn marginalize_validation<const K: usize>() {
    let scs = Scs::new(vec![1.0], vec![1usize, 1, 1, 1]).unwrap();
    let a: [usize; K] = kani::any();
    let mut dup = false;
    let mut oob = false;
    let mut i = 0;
    while i < K {
        kani::assume(a[i] <= 5);
        if a[i] >= 4 {
            oob = true;
        }
        let mut j = i + 1;
        while j < K {
            if a[i] == a[j] {
                dup = true;
            }
            j += 1;
        }
        i += 1;
    }
    let too_many = K >= 4;
    let mut ax = [Axis(0); K];
    let mut i = 0;
    while i < K {
        ax[i] = Axis(a[i]);
        i += 1;
    }
    match scs.marginalize(&ax) {
        Ok(m) => {
            assert!(!dup && !oob && !too_many);
            assert!(m.dimensions() == 4 - K);
            assert!(m.elements() == 1);
            assert!(m.inner().as_slice()[0] == 1.0);
            core::mem::forget(m);
        }
        Err(MarginalizationError::DuplicateAxis { axis }) => {
            assert!(dup);
            let mut count = 0;
            let mut i = 0;
            while i < K {
                if a[i] == axis {
                    count += 1;
                }
                i += 1;
            }
            assert!(count >= 2);
        }
        Err(MarginalizationError::AxisOutOfBounds { axis, dimensions }) => {
            assert!(oob);
            assert!(axis >= 4 && dimensions == 4);
            let mut found = false;
            let mut i = 0;
            while i < K {
                if a[i] == axis {
                    found = true;
                }
                i += 1;
            }
            assert!(found);
        }
        Err(MarginalizationError::TooManyAxes { axes, dimensions }) => {
            assert!(too_many);
            assert!(axes == K && dimensions == 4);
        }
    }
    kani::cover!(K >= 4 || (!dup && !oob), "accepted (lists shorter than the rank)");
    kani::cover!(K == 0 || dup || oob || too_many, "rejected (non-empty lists)");
    core::mem::forget(scs);
}

/// continuation cut: the data path with a symbolic axis list is not explorable (DESIGN section 1);
/// what marginalize_unchecked computes for valid lists is the marginalize_<shape>_rm<axes> harnesses
fn stub_marginalize_unchecked<S: State>(s: &Spectrum<S>, axes: &[Axis]) -> Spectrum<S> {
    // a one-cell spectrum of the reduced rank
    let mut sv = Vec::new();
    let mut i = axes.len();
    while i < s.dimensions() {
        sv.push(1usize);
        i += 1;
    }
    Scs::new(vec![1.0], Shape(sv)).unwrap().into_state_unchecked()
}

macro_rules! marginalize_validation_h {
    ($name:ident, $k:literal, $unw:literal) => {
        #[kani::proof]
        #[kani::unwind($unw)]
        #[kani::stub(Spectrum::marginalize_unchecked, stub_marginalize_unchecked)]
        fn $name() {
            marginalize_validation::<$k>()
        }
    };
}

//@@BEGIN MARGINALIZE_VALIDATION_CASES@@
// @harness props=C04 tier=quick group=f64 bounds=shape=[1,1,1,1],axis-list-length=0,entries=0..5 timeout=1200
marginalize_validation_h!(marginalize_validation_len0, 0, 10);

// @harness props=C04 tier=quick group=f64 bounds=shape=[1,1,1,1],axis-list-length=1,entries=0..5 timeout=1200
marginalize_validation_h!(marginalize_validation_len1, 1, 10);

// @harness props=C04 tier=quick group=f64 bounds=shape=[1,1,1,1],axis-list-length=2,entries=0..5 timeout=1200
marginalize_validation_h!(marginalize_validation_len2, 2, 10);

// @harness props=C04 tier=quick group=f64 bounds=shape=[1,1,1,1],axis-list-length=3,entries=0..5 timeout=1200
marginalize_validation_h!(marginalize_validation_len3, 3, 10);

// @harness props=C04 tier=quick group=f64 bounds=shape=[1,1,1,1],axis-list-length=4,entries=0..5 timeout=1200
marginalize_validation_h!(marginalize_validation_len4, 4, 10);

// @harness props=C04 tier=thorough group=f64 bounds=shape=[1,1,1,1],axis-list-length=5,entries=0..5 timeout=1200
marginalize_validation_h!(marginalize_validation_len5, 5, 10);

//@@END MARGINALIZE_VALIDATION_CASES@@

// ------------------------------------------------------------------------------------------
// C03 projection: structure of Spectrum::project (the pmf is abstracted by a pure table H)
// ------------------------------------------------------------------------------------------

fn h_stub(size: u64, successes: u64, draws: u64, observed: u64) -> f64 {
    ((size + 2 * successes + 3 * draws + 4 * observed) % 5) as f64
}
#[cfg(not(kv_replay))]
fn h_ref(size: usize, successes: usize, draws: usize, observed: usize) -> f64 {
    ((size + 2 * successes + 3 * draws + 4 * observed) % 5) as f64
}
/// native replay: no stub is applied, so the reference is the exact hypergeometric probability
#[cfg(kv_replay)]
fn h_ref(size: usize, successes: usize, draws: usize, observed: usize) -> f64 {
    fn c(n: usize, k: usize) -> u128 {
        if k > n {
            return 0;
        }
        let mut r: u128 = 1;
        for i in 0..k {
            r = r * (n - i) as u128 / (i + 1) as u128;
        }
        r
    }
    if observed > draws || successes > size || draws > size {
        return 0.0;
    }
    (c(successes, observed) * c(size - successes, draws - observed)) as f64 / c(size, draws) as f64
}
#[cfg(not(kv_replay))]
fn same(a: f64, b: f64) -> bool {
    a == b
}
#[cfg(kv_replay)]
fn same(a: f64, b: f64) -> bool {
    close(a, b)
}

/// out[k'] = Σ_k x[k] · Π_j H(n_j, k_j, m_j, k'_j)   (n_j = source length - 1, m_j = target length - 1)
fn project_case<const R: usize, const N: usize, const M: usize>(from: [usize; R], to: [usize; R]) {
    let d: [u8; N] = small::<N>(4);
    let scs = scs_of(from, &d);
    let mut tv = Vec::with_capacity(R);
    let mut j = 0;
    while j < R {
        tv.push(to[j]);
        j += 1;
    }
    let p = match scs.project(Shape(tv)) {
        Ok(p) => p,
        Err(_) => {
            assert!(false);
            return;
        }
    };
    assert!(shape_is(&p, &to));
    let out = p.inner().as_slice();
    assert!(out.len() == M);
    let mut q = 0;
    while q < M {
        let kq = unrank(&to, q);
        let mut acc = 0.0f64;
        let mut s = 0;
        while s < N {
            let ks = unrank(&from, s);
            let mut w = 1.0f64;
            let mut j = 0;
            while j < R {
                w *= h_ref(from[j] - 1, ks[j], to[j] - 1, kq[j]);
                j += 1;
            }
            acc += d[s] as f64 * w;
            s += 1;
        }
        assert!(same(out[q], acc));
        q += 1;
    }
    kani::cover!(true, "reached end");
    core::mem::forget(p);
    core::mem::forget(scs);
}

macro_rules! project_h {
    ($name:ident, $r:literal, $n:literal, $m:literal, $from:expr, $to:expr, $unw:literal) => {
        #[kani::proof]
        #[kani::unwind($unw)]
        #[kani::stub(crate::utils::hypergeometric_pmf, h_stub)]
        fn $name() {
            project_case::<$r, $n, $m>($from, $to)
        }
    };
}

//@@BEGIN PROJECT_CASES@@
// @harness props=C03,C02 tier=quick group=f64 bounds=source=[3],target=[1],cells=0..3,pmf=table-stub timeout=1800
project_h!(project_structure_3_to_1, 1, 3, 1, [3], [1], 6);

// @harness props=C03,C02 tier=quick group=f64 bounds=source=[3],target=[2],cells=0..3,pmf=table-stub timeout=1800
project_h!(project_structure_3_to_2, 1, 3, 2, [3], [2], 6);

// @harness props=C03,C02 tier=quick group=f64 bounds=source=[3],target=[3],cells=0..3,pmf=table-stub timeout=1800
project_h!(project_structure_3_to_3, 1, 3, 3, [3], [3], 6);

// @harness props=C03,C02 tier=quick group=f64 bounds=source=[5],target=[3],cells=0..3,pmf=table-stub timeout=1800
project_h!(project_structure_5_to_3, 1, 5, 3, [5], [3], 8);

// @harness props=C03,C02 tier=thorough group=f64 bounds=source=[7],target=[4],cells=0..3,pmf=table-stub timeout=1800
project_h!(project_structure_7_to_4, 1, 7, 4, [7], [4], 10);

// @harness props=C03,C02 tier=quick group=f64 bounds=source=[2],target=[1],cells=0..3,pmf=table-stub timeout=1800
project_h!(project_structure_2_to_1, 1, 2, 1, [2], [1], 5);

// @harness props=C03,C02 tier=quick group=f64 bounds=source=[3,2],target=[2,2],cells=0..3,pmf=table-stub timeout=1800
project_h!(project_structure_3x2_to_2x2, 2, 6, 4, [3, 2], [2, 2], 9);

// @harness props=C03,C02 tier=quick group=f64 bounds=source=[2,3],target=[2,2],cells=0..3,pmf=table-stub timeout=1800
project_h!(project_structure_2x3_to_2x2, 2, 6, 4, [2, 3], [2, 2], 9);

// @harness props=C03,C02 tier=thorough group=f64 bounds=source=[3,3],target=[2,3],cells=0..3,pmf=table-stub timeout=1800
project_h!(project_structure_3x3_to_2x3, 2, 9, 6, [3, 3], [2, 3], 12);

// @harness props=C03,C02 tier=quick group=f64 bounds=source=[3,3],target=[1,1],cells=0..3,pmf=table-stub timeout=1800
project_h!(project_structure_3x3_to_1x1, 2, 9, 1, [3, 3], [1, 1], 12);

// @harness props=C03,C02 tier=thorough group=f64 bounds=source=[3,3],target=[3,3],cells=0..3,pmf=table-stub timeout=1800
project_h!(project_structure_3x3_to_3x3, 2, 9, 9, [3, 3], [3, 3], 12);

// @harness props=C03,C02 tier=quick group=f64 bounds=source=[2,2,2],target=[2,1,2],cells=0..3,pmf=table-stub timeout=1800
project_h!(project_structure_2x2x2_to_2x1x2, 3, 8, 4, [2, 2, 2], [2, 1, 2], 11);

// @harness props=C03,C02 tier=thorough group=f64 bounds=source=[2,3,2],target=[2,2,1],cells=0..3,pmf=table-stub timeout=1800
project_h!(project_structure_2x3x2_to_2x2x1, 3, 12, 4, [2, 3, 2], [2, 2, 1], 15);

// @harness props=C03,C02 tier=thorough group=f64 bounds=source=[3,2,3],target=[2,2,2],cells=0..3,pmf=table-stub timeout=1800
project_h!(project_structure_3x2x3_to_2x2x2, 3, 18, 8, [3, 2, 3], [2, 2, 2], 21);

// @harness props=C03,C02 tier=thorough group=f64 bounds=source=[2,2,2,2],target=[1,2,1,2],cells=0..3,pmf=table-stub timeout=1800
project_h!(project_structure_2x2x2x2_to_1x2x1x2, 4, 16, 4, [2, 2, 2, 2], [1, 2, 1, 2], 19);

//@@END PROJECT_CASES@@
