// Child module of crate::array::npy::header.
// @inject crate=sfs-core file=core/src/array/npy/header.rs mod=kv_npy_header
//
// The npy reader is cut where its own `?`s cut it (DESIGN C16): Header::read, the typed value loop
// TypeDescriptor::read, and Array::new; the wiring of the pieces (read_array) is small glue.
#![allow(unused_imports, unsafe_code)]
use super::*;
use crate::array::{Array, Shape};
use std::io::{self, BufRead, Read, Write};

#[path = "../util.rs"]
mod util;
use util::*;

/// canonical header numpy 1.x writes for a (2,) '<f8' array, version 1.0, 128 bytes
const HDR_V1: &[u8; 128] = b"\x93\x4e\x55\x4d\x50\x59\x01\x00\x76\x00\x7b\x27\x64\x65\x73\x63\x72\x27\x3a\x20\x27\x3c\x66\x38\x27\x2c\x20\x27\x66\x6f\x72\x74\x72\x61\x6e\x5f\x6f\x72\x64\x65\x72\x27\x3a\x20\x46\x61\x6c\x73\x65\x2c\x20\x27\x73\x68\x61\x70\x65\x27\x3a\x20\x28\x32\x2c\x29\x2c\x20\x7d\x20\x20\x20\x20\x20\x20\x20\x20\x20\x20\x20\x20\x20\x20\x20\x20\x20\x20\x20\x20\x20\x20\x20\x20\x20\x20\x20\x20\x20\x20\x20\x20\x20\x20\x20\x20\x20\x20\x20\x20\x20\x20\x20\x20\x20\x20\x20\x20\x20\x20\x20\x20\x20\x20\x20\x20\x20\x20\x20\x20\x0a";
/// the same array with a version 2.0 header (4-byte length field), 128 bytes
const HDR_V2: &[u8; 128] = b"\x93\x4e\x55\x4d\x50\x59\x02\x00\x74\x00\x00\x00\x7b\x27\x64\x65\x73\x63\x72\x27\x3a\x20\x27\x3c\x66\x38\x27\x2c\x20\x27\x66\x6f\x72\x74\x72\x61\x6e\x5f\x6f\x72\x64\x65\x72\x27\x3a\x20\x46\x61\x6c\x73\x65\x2c\x20\x27\x73\x68\x61\x70\x65\x27\x3a\x20\x28\x32\x2c\x29\x2c\x20\x7d\x20\x20\x20\x20\x20\x20\x20\x20\x20\x20\x20\x20\x20\x20\x20\x20\x20\x20\x20\x20\x20\x20\x20\x20\x20\x20\x20\x20\x20\x20\x20\x20\x20\x20\x20\x20\x20\x20\x20\x20\x20\x20\x20\x20\x20\x20\x20\x20\x20\x20\x20\x20\x20\x20\x20\x20\x20\x20\x0a";

/// continuation cut: what the dict parser would return for the canonical text
fn stub_parse(_input: &str) -> Result<Vec<parse::Entry>, ParseHeaderError> {
    Ok(vec![
        parse::Entry::Descr(TypeDescriptor::new(Endian::Little, Type::F8)),
        parse::Entry::FortranOrder(false),
        parse::Entry::Shape(vec![2]),
    ])
}
fn stub_from_utf8(v: &[u8]) -> Result<&str, core::str::Utf8Error> {
    Ok(unsafe { core::str::from_utf8_unchecked(v) })
}

/// A BufRead over a byte slice with a symbolic chunk schedule: the first fill_buf returns at most
/// `first` bytes, every later one at most `step` bytes (step = 1: one byte at a time), and every
/// fill_buf at or beyond offset `fail_at` fails.
struct Chunked<'a> {
    data: &'a [u8],
    pos: usize,
    first: usize,
    step: usize,
    fail_at: usize,
}

impl<'a> Chunked<'a> {
    fn whole(data: &'a [u8]) -> Self {
        Chunked {
            data,
            pos: 0,
            first: usize::MAX,
            step: usize::MAX,
            fail_at: usize::MAX,
        }
    }
    /// a concrete schedule (symbolic chunk lengths make every read_exact loop symbolic: > 900 s)
    fn schedule(data: &'a [u8], first: usize, step: usize) -> Self {
        Chunked {
            data,
            pos: 0,
            first,
            step,
            fail_at: usize::MAX,
        }
    }
    fn failing(data: &'a [u8], fail_at: usize) -> Self {
        Chunked {
            data,
            pos: 0,
            first: usize::MAX,
            step: usize::MAX,
            fail_at,
        }
    }
}

impl<'a> Read for Chunked<'a> {
    fn read(&mut self, buf: &mut [u8]) -> io::Result<usize> {
        let avail = self.fill_buf()?;
        let n = if avail.len() < buf.len() { avail.len() } else { buf.len() };
        buf[..n].copy_from_slice(&avail[..n]);
        self.consume(n);
        Ok(n)
    }
}

impl<'a> BufRead for Chunked<'a> {
    fn fill_buf(&mut self) -> io::Result<&[u8]> {
        if self.pos >= self.fail_at {
            return Err(io::Error::from_raw_os_error(5));
        }
        let left = self.data.len() - self.pos;
        let limit = if self.pos == 0 { self.first } else { self.step };
        let mut n = if left < limit { left } else { limit };
        if self.fail_at - self.pos < n {
            n = self.fail_at - self.pos;
        }
        Ok(&self.data[self.pos..self.pos + n])
    }
    fn consume(&mut self, amt: usize) {
        self.pos += amt;
    }
}

// ------------------------------------------------------------------------------------------
// C16 / C18: Header::read
// ------------------------------------------------------------------------------------------

fn header_truncated(hdr: &[u8; 128]) {
    let t: usize = kani::any();
    kani::assume(t < 128);
    let mut r = &hdr[..t];
    let res = Header::read(&mut r);
    assert!(res.is_err());
    kani::cover!(t < 6, "cut inside the magic");
    kani::cover!(t == 7, "cut inside the version");
    kani::cover!(t == 9, "cut inside the length field");
    kani::cover!(t > 20 && t < 60, "cut inside the dict");
    kani::cover!(t == 127, "cut inside the padding");
    core::mem::forget(res);
}

// @harness props=C16,C18 tier=quick bounds=numpy-v1.0-header-for-shape-(2,),every-cut-0..127 timeout=900
#[kani::proof]
#[kani::unwind(12)]
#[kani::stub(crate::array::npy::header::parse::parse_header_dict, stub_parse)]
#[kani::stub(core::str::from_utf8, stub_from_utf8)]
fn header_read_truncated_v1() {
    header_truncated(HDR_V1)
}

// @harness props=C16,C18 tier=quick bounds=numpy-v2.0-header-for-shape-(2,),every-cut-0..127 timeout=900
#[kani::proof]
#[kani::unwind(12)]
#[kani::stub(crate::array::npy::header::parse::parse_header_dict, stub_parse)]
#[kani::stub(core::str::from_utf8, stub_from_utf8)]
fn header_read_truncated_v2() {
    header_truncated(HDR_V2)
}

fn header_complete(hdr: &[u8; 128], v: Version, first: usize, step: usize) {
    // complete header, chunked: accepted, and the reader is left exactly at the payload
    let mut r = Chunked::schedule(&hdr[..], first, step);
    match Header::read(&mut r) {
        Ok(h) => {
            assert!(h.version == v);
            assert!(r.pos == 128);
            core::mem::forget(h);
        }
        Err(e) => {
            core::mem::forget(e);
            assert!(false);
        }
    }
    kani::cover!(true, "reached end");
}

macro_rules! header_chunked_h {
    ($name:ident, $hdr:ident, $v:ident, $first:expr, $step:expr) => {
        #[kani::proof]
        #[kani::unwind(130)]
        #[kani::stub(crate::array::npy::header::parse::parse_header_dict, stub_parse)]
        #[kani::stub(core::str::from_utf8, stub_from_utf8)]
        fn $name() {
            header_complete($hdr, Version::$v, $first, $step)
        }
    };
}

// @harness props=C18 tier=quick bounds=numpy-v1-header,first-chunk=1,later-chunks=rest timeout=900
header_chunked_h!(header_read_chunked_v1_f1_srest, HDR_V1, V1, 1, usize::MAX);

// @harness props=C18 tier=quick bounds=numpy-v1-header,first-chunk=7,later-chunks=rest timeout=900
header_chunked_h!(header_read_chunked_v1_f7_srest, HDR_V1, V1, 7, usize::MAX);

// @harness props=C18 tier=thorough bounds=numpy-v1-header,first-chunk=9,later-chunks=rest timeout=900
header_chunked_h!(header_read_chunked_v1_f9_srest, HDR_V1, V1, 9, usize::MAX);

// @harness props=C18 tier=quick bounds=numpy-v1-header,first-chunk=11,later-chunks=3 timeout=900
header_chunked_h!(header_read_chunked_v1_f11_s3, HDR_V1, V1, 11, 3);

// @harness props=C18 tier=thorough bounds=numpy-v1-header,first-chunk=1,later-chunks=1 timeout=900
header_chunked_h!(header_read_chunked_v1_f1_s1, HDR_V1, V1, 1, 1);

// @harness props=C18 tier=thorough bounds=numpy-v1-header,first-chunk=64,later-chunks=rest timeout=900
header_chunked_h!(header_read_chunked_v1_f64_srest, HDR_V1, V1, 64, usize::MAX);

// @harness props=C18 tier=quick bounds=numpy-v2-header,first-chunk=1,later-chunks=rest timeout=900
header_chunked_h!(header_read_chunked_v2_f1_srest, HDR_V2, V2, 1, usize::MAX);

// @harness props=C18 tier=quick bounds=numpy-v2-header,first-chunk=7,later-chunks=rest timeout=900
header_chunked_h!(header_read_chunked_v2_f7_srest, HDR_V2, V2, 7, usize::MAX);

// @harness props=C18 tier=thorough bounds=numpy-v2-header,first-chunk=9,later-chunks=rest timeout=900
header_chunked_h!(header_read_chunked_v2_f9_srest, HDR_V2, V2, 9, usize::MAX);

// @harness props=C18 tier=quick bounds=numpy-v2-header,first-chunk=11,later-chunks=3 timeout=900
header_chunked_h!(header_read_chunked_v2_f11_s3, HDR_V2, V2, 11, 3);

// @harness props=C18 tier=thorough bounds=numpy-v2-header,first-chunk=1,later-chunks=1 timeout=900
header_chunked_h!(header_read_chunked_v2_f1_s1, HDR_V2, V2, 1, 1);

// @harness props=C18 tier=thorough bounds=numpy-v2-header,first-chunk=64,later-chunks=rest timeout=900
header_chunked_h!(header_read_chunked_v2_f64_srest, HDR_V2, V2, 64, usize::MAX);

fn stub_not_interrupted2(_e: &io::Error) -> bool {
    false
}

macro_rules! header_fault_h {
    ($name:ident, $f:literal) => {
        #[kani::proof]
        #[kani::unwind(130)]
        #[kani::stub(crate::array::npy::header::parse::parse_header_dict, stub_parse)]
        #[kani::stub(core::str::from_utf8, stub_from_utf8)]
        #[kani::stub(std::io::Error::is_interrupted, stub_not_interrupted2)]
        fn $name() {
            // the failure offset is concrete per harness (it bounds a copy)
            let mut r = Chunked::failing(&HDR_V1[..], $f);
            let res = Header::read(&mut r);
            assert!(res.is_err());
            core::mem::forget(res);
            kani::cover!(true, "reached end");
        }
    };
}

// @harness props=C18 tier=quick bounds=numpy-v1.0-header,reader-fails-at-offset=0 timeout=600
header_fault_h!(header_read_fault_at0, 0);

// @harness props=C18 tier=quick bounds=numpy-v1.0-header,reader-fails-at-offset=3 timeout=600
header_fault_h!(header_read_fault_at3, 3);

// @harness props=C18 tier=thorough bounds=numpy-v1.0-header,reader-fails-at-offset=6 timeout=600
header_fault_h!(header_read_fault_at6, 6);

// @harness props=C18 tier=quick bounds=numpy-v1.0-header,reader-fails-at-offset=7 timeout=600
header_fault_h!(header_read_fault_at7, 7);

// @harness props=C18 tier=quick bounds=numpy-v1.0-header,reader-fails-at-offset=9 timeout=600
header_fault_h!(header_read_fault_at9, 9);

// @harness props=C18 tier=thorough bounds=numpy-v1.0-header,reader-fails-at-offset=10 timeout=600
header_fault_h!(header_read_fault_at10, 10);

// @harness props=C18 tier=quick bounds=numpy-v1.0-header,reader-fails-at-offset=50 timeout=600
header_fault_h!(header_read_fault_at50, 50);

// @harness props=C18 tier=quick bounds=numpy-v1.0-header,reader-fails-at-offset=127 timeout=600
header_fault_h!(header_read_fault_at127, 127);

// @harness props=C15,C16 tier=quick bounds=first-8-bytes-symbolic(magic+version)
#[kani::proof]
#[kani::unwind(12)]
#[kani::stub(crate::array::npy::header::parse::parse_header_dict, stub_parse)]
#[kani::stub(core::str::from_utf8, stub_from_utf8)]
fn header_read_magic_version() {
    // any corruption of the magic, or a major version outside 1..3, is rejected
    let mut file = *HDR_V1;
    let head: [u8; 7] = kani::any();
    file[..7].copy_from_slice(&head);
    let magic_ok = head[0] == 0x93 && head[1] == b'N' && head[2] == b'U' && head[3] == b'M' && head[4] == b'P' && head[5] == b'Y';
    let mut r = Chunked::whole(&file[..]);
    let res = Header::read(&mut r);
    if !magic_ok || head[6] == 0 || head[6] > 3 {
        assert!(res.is_err());
    }
    if magic_ok && head[6] == 1 {
        assert!(res.is_ok());
    }
    kani::cover!(!magic_ok, "bad magic");
    kani::cover!(magic_ok && head[6] == 4, "unsupported version");
    core::mem::forget(res);
}

// ------------------------------------------------------------------------------------------
// C15: header length field and version bytes
// ------------------------------------------------------------------------------------------

// @harness props=C15 tier=quick bounds=all-version-bytes,all-length-field-bytes
#[kani::proof]
#[kani::unwind(6)]
fn header_len_field() {
    let vb: [u8; 2] = kani::any();
    let lb: [u8; 4] = kani::any();
    match Version::from_header_bytes(vb) {
        Ok(v) => {
            assert!(vb[0] >= 1 && vb[0] <= 3);
            assert!(v == match vb[0] {
                1 => Version::V1,
                2 => Version::V2,
                _ => Version::V3,
            });
            let mut r = Chunked::whole(&lb[..]);
            match v.read_header_len(&mut r) {
                Ok(n) => {
                    if vb[0] == 1 {
                        // little-endian u16
                        assert!(n == lb[0] as usize + 256 * lb[1] as usize);
                        assert!(r.pos == 2);
                    } else {
                        // little-endian u32
                        assert!(n == lb[0] as usize + 256 * lb[1] as usize + 65536 * lb[2] as usize + 16777216 * lb[3] as usize);
                        assert!(r.pos == 4);
                    }
                }
                Err(e) => {
                    core::mem::forget(e);
                    assert!(false);
                }
            }
            // what is written is what is read back
            let out = v.to_header_bytes();
            assert!(out[0] == vb[0] && out[1] == 0);
            assert!(v.header_len_bytes_len() == if vb[0] == 1 { 2 } else { 4 });
            kani::cover!(vb[0] == 3, "version 3");
        }
        Err(_) => assert!(vb[0] == 0 || vb[0] > 3),
    }
}

// @harness props=C15 tier=quick bounds=header-length-any-usize,version=1|2|3
#[kani::proof]
#[kani::unwind(8)]
fn header_len_write_read() {
    let n: usize = kani::any();
    let v = match choice(3) {
        0 => Version::V1,
        1 => Version::V2,
        _ => Version::V3,
    };
    let fits = if v == Version::V1 { n <= 0xffff } else { n <= 0xffff_ffff };
    kani::assume(fits);
    let mut buf = [0u8; 4];
    let mut w = &mut buf[..];
    let r = v.write_header_len(n, &mut w);
    assert!(r.is_ok());
    let left = w.len();
    assert!(left == 4 - v.header_len_bytes_len());
    let mut rd = Chunked::whole(&buf[..]);
    match v.read_header_len(&mut rd) {
        Ok(m) => assert!(m == n),
        Err(e) => {
            core::mem::forget(e);
            assert!(false);
        }
    }
    kani::cover!(n > 0xffff, "needs four bytes");
    core::mem::forget(r);
}

// ------------------------------------------------------------------------------------------
// C15: the 20 decoders against a hand decoder (what numpy's astype(float64) gives)
// ------------------------------------------------------------------------------------------

fn decode_ref(endian: &Endian, ty: &Type, b: &[u8]) -> f64 {
    let n = b.len();
    // assemble the value little-endian-wise regardless of the file's byte order
    let mut le = [0u8; 8];
    let mut i = 0;
    while i < n {
        le[i] = match endian {
            Endian::Little => b[i],
            Endian::Big => b[n - 1 - i],
        };
        i += 1;
    }
    let mut u: u64 = 0;
    let mut i = n;
    while i > 0 {
        i -= 1;
        u = (u << 8) | le[i] as u64;
    }
    match ty {
        Type::F8 => f64::from_bits(u),
        Type::F4 => f32::from_bits(u as u32) as f64,
        Type::U1 | Type::U2 | Type::U4 | Type::U8 => u as f64,
        Type::I1 => (u as u8 as i8) as f64,
        Type::I2 => (u as u16 as i16) as f64,
        Type::I4 => (u as u32 as i32) as f64,
        Type::I8 => (u as i64) as f64,
    }
}

fn size_of(ty: &Type) -> usize {
    match ty {
        Type::I1 | Type::U1 => 1,
        Type::I2 | Type::U2 => 2,
        Type::F4 | Type::I4 | Type::U4 => 4,
        Type::F8 | Type::I8 | Type::U8 => 8,
    }
}

fn same_bits(a: f64, b: f64) -> bool {
    a.to_bits() == b.to_bits() || (a != a && b != b)
}

/// k values of the given dtype are read in order, bit-exactly, and nothing else.
fn decoder_case(endian: Endian, ty: Type) {
    let sz = size_of(&ty);
    let bytes: [u8; 16] = kani::any();
    let k = 16 / sz;
    let k = if k > 2 { 2 } else { k };
    let td = TypeDescriptor::new(endian, ty);
    let mut r = &bytes[..k * sz];
    match td.read(&mut r) {
        Ok(v) => {
            assert!(v.len() == k);
            let mut i = 0;
            while i < k {
                let exp = decode_ref(&td.endian, &td.ty, &bytes[i * sz..(i + 1) * sz]);
                assert!(same_bits(v[i], exp));
                i += 1;
            }
            core::mem::forget(v);
        }
        Err(e) => {
            core::mem::forget(e);
            assert!(false);
        }
    }
    kani::cover!(true, "reached end");
}

macro_rules! decoder_h {
    ($name:ident, $e:ident, $t:ident) => {
        #[kani::proof]
        #[kani::unwind(18)]
        fn $name() {
            decoder_case(Endian::$e, Type::$t)
        }
    };
}

//@@BEGIN DECODER_CASES@@
// @harness props=C15 tier=quick group=f64 bounds=dtype=<f4,two-values-of-symbolic-bytes(all-bit-patterns) timeout=900
decoder_h!(decoder_lf4, Little, F4);

// @harness props=C15 tier=quick group=f64 bounds=dtype=<f8,two-values-of-symbolic-bytes(all-bit-patterns) timeout=900
decoder_h!(decoder_lf8, Little, F8);

// @harness props=C15 tier=quick group=f64 bounds=dtype=<i1,two-values-of-symbolic-bytes(all-bit-patterns) timeout=900
decoder_h!(decoder_li1, Little, I1);

// @harness props=C15 tier=quick group=f64 bounds=dtype=<i2,two-values-of-symbolic-bytes(all-bit-patterns) timeout=900
decoder_h!(decoder_li2, Little, I2);

// @harness props=C15 tier=quick group=f64 bounds=dtype=<i4,two-values-of-symbolic-bytes(all-bit-patterns) timeout=900
decoder_h!(decoder_li4, Little, I4);

// @harness props=C15 tier=quick group=f64 bounds=dtype=<i8,two-values-of-symbolic-bytes(all-bit-patterns) timeout=900
decoder_h!(decoder_li8, Little, I8);

// @harness props=C15 tier=quick group=f64 bounds=dtype=<u1,two-values-of-symbolic-bytes(all-bit-patterns) timeout=900
decoder_h!(decoder_lu1, Little, U1);

// @harness props=C15 tier=quick group=f64 bounds=dtype=<u2,two-values-of-symbolic-bytes(all-bit-patterns) timeout=900
decoder_h!(decoder_lu2, Little, U2);

// @harness props=C15 tier=quick group=f64 bounds=dtype=<u4,two-values-of-symbolic-bytes(all-bit-patterns) timeout=900
decoder_h!(decoder_lu4, Little, U4);

// @harness props=C15 tier=quick group=f64 bounds=dtype=<u8,two-values-of-symbolic-bytes(all-bit-patterns) timeout=900
decoder_h!(decoder_lu8, Little, U8);

// @harness props=C15 tier=quick group=f64 bounds=dtype=>f4,two-values-of-symbolic-bytes(all-bit-patterns) timeout=900
decoder_h!(decoder_bf4, Big, F4);

// @harness props=C15 tier=quick group=f64 bounds=dtype=>f8,two-values-of-symbolic-bytes(all-bit-patterns) timeout=900
decoder_h!(decoder_bf8, Big, F8);

// @harness props=C15 tier=quick group=f64 bounds=dtype=>i1,two-values-of-symbolic-bytes(all-bit-patterns) timeout=900
decoder_h!(decoder_bi1, Big, I1);

// @harness props=C15 tier=quick group=f64 bounds=dtype=>i2,two-values-of-symbolic-bytes(all-bit-patterns) timeout=900
decoder_h!(decoder_bi2, Big, I2);

// @harness props=C15 tier=quick group=f64 bounds=dtype=>i4,two-values-of-symbolic-bytes(all-bit-patterns) timeout=900
decoder_h!(decoder_bi4, Big, I4);

// @harness props=C15 tier=quick group=f64 bounds=dtype=>i8,two-values-of-symbolic-bytes(all-bit-patterns) timeout=900
decoder_h!(decoder_bi8, Big, I8);

// @harness props=C15 tier=quick group=f64 bounds=dtype=>u1,two-values-of-symbolic-bytes(all-bit-patterns) timeout=900
decoder_h!(decoder_bu1, Big, U1);

// @harness props=C15 tier=quick group=f64 bounds=dtype=>u2,two-values-of-symbolic-bytes(all-bit-patterns) timeout=900
decoder_h!(decoder_bu2, Big, U2);

// @harness props=C15 tier=quick group=f64 bounds=dtype=>u4,two-values-of-symbolic-bytes(all-bit-patterns) timeout=900
decoder_h!(decoder_bu4, Big, U4);

// @harness props=C15 tier=quick group=f64 bounds=dtype=>u8,two-values-of-symbolic-bytes(all-bit-patterns) timeout=900
decoder_h!(decoder_bu8, Big, U8);

//@@END DECODER_CASES@@

// ------------------------------------------------------------------------------------------
// C15: descriptor table
// ------------------------------------------------------------------------------------------

// @harness props=C15 tier=quick bounds=every-3-byte-ASCII-descriptor timeout=900
#[kani::proof]
#[kani::unwind(6)]
#[kani::stub(std::fmt::format, stub_format)]
fn descr_table() {
    let b: [u8; 3] = kani::any();
    kani::assume(b[0] < 128 && b[1] < 128 && b[2] < 128);
    let s = unsafe { core::str::from_utf8_unchecked(&b) };
    let r = TypeDescriptor::from_str(s);
    let endian = match b[0] {
        b'<' | b'|' => Some(Endian::Little),
        b'>' => Some(Endian::Big),
        _ => None,
    };
    let ty = match (b[1], b[2]) {
        (b'f', b'4') => Some(Type::F4),
        (b'f', b'8') => Some(Type::F8),
        (b'i', b'1') => Some(Type::I1),
        (b'i', b'2') => Some(Type::I2),
        (b'i', b'4') => Some(Type::I4),
        (b'i', b'8') => Some(Type::I8),
        (b'u', b'1') => Some(Type::U1),
        (b'u', b'2') => Some(Type::U2),
        (b'u', b'4') => Some(Type::U4),
        (b'u', b'8') => Some(Type::U8),
        _ => None,
    };
    let supported = endian.is_some() && ty.is_some();
    match (r, endian, ty) {
        (Ok(td), Some(e), Some(t)) => assert!(td == TypeDescriptor::new(e, t)),
        (Err(e), None, _) | (Err(e), _, None) => core::mem::forget(e),
        (Ok(_), _, _) => assert!(false),
        (Err(e), Some(_), Some(_)) => {
            core::mem::forget(e);
            assert!(false)
        }
    }
    kani::cover!(supported, "supported descriptor");
    kani::cover!(b[0] == b'=' , "native-order marker is not supported");
}

fn stub_format(_args: core::fmt::Arguments<'_>) -> String {
    String::new()
}

// ------------------------------------------------------------------------------------------
// C16 / C18: payload truncation / extension, shape check, faults
// ------------------------------------------------------------------------------------------

/// `t` payload bytes present (t <= 16 + 16): Err iff the cut is inside a value, otherwise t/size
/// values; Array::new then accepts iff t/size = product(shape): every cut at a value boundary and
/// every extension is rejected by the shape check.
fn payload_case<const R: usize>(endian: Endian, ty: Type, shape: [usize; R]) {
    let sz = size_of(&ty);
    let n = product(&shape);
    let bytes: [u8; 40] = kani::any();
    let t: usize = kani::any();
    kani::assume(t <= n * sz + 16 && t <= 40);
    let td = TypeDescriptor::new(endian, ty);
    kani::cover!(sz == 1 || (t % sz != 0 && t > n * sz), "extended by a partial value (item size > 1)");
    kani::cover!(sz == 1 || (t % sz != 0 && t < n * sz), "cut inside a value (item size > 1)");
    let mut r = &bytes[..t];
    match td.read(&mut r) {
        Ok(v) => {
            assert!(t % sz == 0);
            assert!(v.len() == t / sz);
            let mut sv = Vec::with_capacity(R);
            let mut j = 0;
            while j < R {
                sv.push(shape[j]);
                j += 1;
            }
            let a = Array::new(v, Shape(sv));
            assert!(a.is_ok() == (t == n * sz));
            kani::cover!(t > n * sz, "extended by whole values");
            kani::cover!(t < n * sz, "cut at a value boundary");
            core::mem::forget(a);
        }
        Err(e) => {
            assert!(t % sz != 0);
            core::mem::forget(e);
        }
    }
}

macro_rules! payload_h {
    ($name:ident, $e:ident, $t:ident, $r:literal, $shape:expr, $unw:literal) => {
        #[kani::proof]
        #[kani::unwind($unw)]
        fn $name() {
            payload_case::<$r>(Endian::$e, Type::$t, $shape)
        }
    };
}

// @harness props=C16 tier=quick bounds=dtype=<f8,shape=(2,),payload=symbolic,cut/extension=0..32-bytes timeout=900
payload_h!(payload_truncated_lf8_2, Little, F8, 1, [2], 8);
// @harness props=C16 tier=quick bounds=dtype=<f8,shape=(1,),payload=symbolic,cut/extension=0..24-bytes timeout=900
payload_h!(payload_truncated_lf8_1, Little, F8, 1, [1], 8);
// @harness props=C16 tier=quick bounds=dtype=>i4,shape=(2,2),payload=symbolic,cut/extension=0..32-bytes timeout=900
payload_h!(payload_truncated_bi4_2x2, Big, I4, 2, [2, 2], 12);
// @harness props=C16 tier=quick bounds=dtype=<u2,shape=(3,1),payload=symbolic,cut/extension=0..22-bytes timeout=900
payload_h!(payload_truncated_lu2_3x1, Little, U2, 2, [3, 1], 14);
// @harness props=C16 tier=thorough bounds=dtype=|u1,shape=(2,3),payload=symbolic,cut/extension=0..22-bytes timeout=1800
payload_h!(payload_truncated_lu1_2x3, Little, U1, 2, [2, 3], 26);
// @harness props=C16 tier=thorough bounds=dtype=>f8,shape=(2,1,1),payload=symbolic,cut/extension=0..32-bytes timeout=1800
payload_h!(payload_truncated_bf8_2x1x1, Big, F8, 3, [2, 1, 1], 8);

fn payload_chunked<const N: usize>(endian: Endian, ty: Type, first: usize, step: usize) {
    let bytes: [u8; N] = kani::any();
    let sz = size_of(&ty);
    let td = TypeDescriptor::new(endian, ty);
    let mut r = Chunked::schedule(&bytes[..], first, step);
    match td.read(&mut r) {
        Ok(v) => {
            assert!(v.len() == N / sz);
            let mut i = 0;
            while i < N / sz {
                assert!(same_bits(v[i], decode_ref(&td.endian, &td.ty, &bytes[sz * i..sz * i + sz])));
                i += 1;
            }
            core::mem::forget(v);
        }
        Err(e) => {
            core::mem::forget(e);
            assert!(false);
        }
    }
    kani::cover!(true, "reached end");
}

macro_rules! payload_chunked_h {
    ($name:ident, $n:literal, $e:ident, $t:ident, $first:expr, $step:expr) => {
        #[kani::proof]
        #[kani::unwind(20)]
        fn $name() {
            payload_chunked::<$n>(Endian::$e, Type::$t, $first, $step)
        }
    };
}

// @harness props=C18 tier=quick group=f64 bounds=dtype=<f8,16-byte-symbolic-payload,first-chunk=1,later-chunks=rest timeout=900
payload_chunked_h!(payload_chunked_lf8_f1_srest, 16, Little, F8, 1, usize::MAX);

// @harness props=C18 tier=quick group=f64 bounds=dtype=<f8,16-byte-symbolic-payload,first-chunk=3,later-chunks=rest timeout=900
payload_chunked_h!(payload_chunked_lf8_f3_srest, 16, Little, F8, 3, usize::MAX);

// @harness props=C18 tier=quick group=f64 bounds=dtype=<f8,16-byte-symbolic-payload,first-chunk=8,later-chunks=rest timeout=900
payload_chunked_h!(payload_chunked_lf8_f8_srest, 16, Little, F8, 8, usize::MAX);

// @harness props=C15,C18 tier=quick group=f64 bounds=dtype=<f8,16-byte-symbolic-payload,first-chunk=9,later-chunks=rest timeout=900
payload_chunked_h!(payload_chunked_lf8_f9_srest, 16, Little, F8, 9, usize::MAX);

// @harness props=C15,C18 tier=quick group=f64 bounds=dtype=<f8,16-byte-symbolic-payload,first-chunk=5,later-chunks=3 timeout=900
payload_chunked_h!(payload_chunked_lf8_f5_s3, 16, Little, F8, 5, 3);

// @harness props=C18 tier=quick group=f64 bounds=dtype=<f8,16-byte-symbolic-payload,first-chunk=1,later-chunks=1 timeout=900
payload_chunked_h!(payload_chunked_lf8_f1_s1, 16, Little, F8, 1, 1);

// @harness props=C18 tier=thorough group=f64 bounds=dtype=<f8,16-byte-symbolic-payload,first-chunk=7,later-chunks=2 timeout=900
payload_chunked_h!(payload_chunked_lf8_f7_s2, 16, Little, F8, 7, 2);

// @harness props=C18 tier=thorough group=f64 bounds=dtype=<f8,16-byte-symbolic-payload,first-chunk=15,later-chunks=rest timeout=900
payload_chunked_h!(payload_chunked_lf8_f15_srest, 16, Little, F8, 15, usize::MAX);

// @harness props=C18 tier=quick group=f64 bounds=dtype=>i2,6-byte-symbolic-payload,first-chunk=1,later-chunks=rest timeout=900
payload_chunked_h!(payload_chunked_bi2_f1_srest, 6, Big, I2, 1, usize::MAX);

// @harness props=C15,C18 tier=quick group=f64 bounds=dtype=>i2,6-byte-symbolic-payload,first-chunk=3,later-chunks=2 timeout=900
payload_chunked_h!(payload_chunked_bi2_f3_s2, 6, Big, I2, 3, 2);

// @harness props=C18 tier=thorough group=f64 bounds=dtype=>i2,6-byte-symbolic-payload,first-chunk=1,later-chunks=1 timeout=900
payload_chunked_h!(payload_chunked_bi2_f1_s1, 6, Big, I2, 1, 1);

/// the injected error is never ErrorKind::Interrupted (decoding the bit-packed repr of io::Error to
/// find that out is what CBMC cannot do in useful time)
fn stub_not_interrupted(_e: &io::Error) -> bool {
    false
}

macro_rules! payload_fault_h {
    ($name:ident, $f:literal) => {
        #[kani::proof]
        #[kani::unwind(20)]
        #[kani::stub(std::io::Error::is_interrupted, stub_not_interrupted)]
        fn $name() {
            let bytes: [u8; 16] = kani::any();
            let mut r = Chunked::failing(&bytes[..], $f);
            let res = TypeDescriptor::new(Endian::Little, Type::F8).read(&mut r);
            // an I/O error anywhere in the payload surfaces; never Ok with fewer values
            assert!(res.is_err());
            core::mem::forget(res);
            kani::cover!(true, "reached end");
        }
    };
}

// @harness props=C18 tier=quick bounds=dtype=<f8,16-byte-symbolic-payload,reader-fails-at-offset=0 timeout=600
payload_fault_h!(payload_fault_lf8_at0, 0);

// @harness props=C18 tier=quick bounds=dtype=<f8,16-byte-symbolic-payload,reader-fails-at-offset=3 timeout=600
payload_fault_h!(payload_fault_lf8_at3, 3);

// @harness props=C18 tier=quick bounds=dtype=<f8,16-byte-symbolic-payload,reader-fails-at-offset=8 timeout=600
payload_fault_h!(payload_fault_lf8_at8, 8);

// @harness props=C18 tier=quick bounds=dtype=<f8,16-byte-symbolic-payload,reader-fails-at-offset=12 timeout=600
payload_fault_h!(payload_fault_lf8_at12, 12);

// @harness props=C18 tier=thorough bounds=dtype=<f8,16-byte-symbolic-payload,reader-fails-at-offset=15 timeout=600
payload_fault_h!(payload_fault_lf8_at15, 15);

// @harness props=C18 tier=thorough bounds=dtype=<f8,16-byte-symbolic-payload,reader-fails-at-offset=1 timeout=600
payload_fault_h!(payload_fault_lf8_at1, 1);

fn new_check<const R: usize>(data: &[u8], n: [usize; R]) {
    let mut sv = Vec::with_capacity(R);
    let mut p = 1usize;
    let mut j = 0;
    while j < R {
        sv.push(n[j]);
        p *= n[j];
        j += 1;
    }
    let r = Array::new(data.to_vec(), Shape(sv));
    assert!(r.is_ok() == (data.len() == p));
    kani::cover!(data.len() == p && p > 1, "accepted");
    kani::cover!(data.len() != p, "rejected");
    core::mem::forget(r);
}

/// data length concrete per branch (it sizes an allocation), axis lengths symbolic 0..4
fn array_new_case<const R: usize>() {
    let data: [u8; 6] = kani::any();
    let n: [usize; R] = kani::any();
    let mut j = 0;
    while j < R {
        kani::assume(n[j] <= 4);
        j += 1;
    }
    match choice(7) {
        0 => new_check::<R>(&data[..0], n),
        1 => new_check::<R>(&data[..1], n),
        2 => new_check::<R>(&data[..2], n),
        3 => new_check::<R>(&data[..3], n),
        4 => new_check::<R>(&data[..4], n),
        5 => new_check::<R>(&data[..5], n),
        _ => new_check::<R>(&data[..6], n),
    }
}

// @harness props=C16 tier=quick bounds=data-length=0..6,rank=1,axis-lengths=symbolic-0..4
#[kani::proof]
#[kani::unwind(9)]
fn array_new_shape_check_r1() {
    array_new_case::<1>()
}

// @harness props=C16 tier=quick bounds=data-length=0..6,rank=2,axis-lengths=symbolic-0..4
#[kani::proof]
#[kani::unwind(9)]
fn array_new_shape_check_r2() {
    array_new_case::<2>()
}

// @harness props=C16 tier=quick bounds=data-length=0..6,rank=3,axis-lengths=symbolic-0..4
#[kani::proof]
#[kani::unwind(9)]
fn array_new_shape_check_r3() {
    array_new_case::<3>()
}
