// Child module of crate::input::site::reader (sees Reader's private fields and new_unchecked).
// @inject crate=sfs-core file=core/src/input/site/reader.rs mod=kv_site_reader
//
// The site-reader kernel `Reader::read_site` driven by an in-memory genotype::Reader.
// * sample::Map lookups are replaced by a table model (the real IndexMap/HashMap is out of reach,
//   DESIGN section 1 / C09); the sample -> population assignment is concrete per harness and every
//   assignment of 3 samples is enumerated, genotypes are symbolic.
// * every harness starts from an arbitrary DIRTY pre-state (counts, totals, skipped_samples of a
//   previous record), so one step covers histories of any length (C11).
#![allow(unused_imports, static_mut_refs, unsafe_code)]
use super::*;
use crate::input::genotype::{Genotype, Skipped};
use crate::input::sample::population;
use crate::spectrum::project::PartialProjection;

#[path = "../util.rs"]
mod util;
use util::*;

const NS: usize = 3;
// 0 = not selected, j+1 = population j
static mut ASSIGN: [u8; NS] = [0; NS];
static mut NPOP: usize = 0;

fn sample_index(s: &Sample) -> usize {
    (s.as_ref().as_bytes()[1] - b'0') as usize
}

fn stub_get_population_id(_m: &sample::Map, s: &Sample) -> Option<population::Id> {
    let a = unsafe { ASSIGN[sample_index(s)] };
    if a == 0 {
        None
    } else {
        Some(population::Id(a as usize - 1))
    }
}
/// sample ids = rank among the selected samples (insertion order of the model map)
fn stub_get_sample_id(_m: &sample::Map, s: &Sample) -> Option<sample::Id> {
    let i = sample_index(s);
    let a = unsafe { ASSIGN };
    if a[i] == 0 {
        return None;
    }
    let mut id = 0;
    let mut j = 0;
    while j < i {
        if a[j] != 0 {
            id += 1;
        }
        j += 1;
    }
    Some(sample::Id(id))
}
fn stub_number_of_populations(_m: &sample::Map) -> usize {
    unsafe { NPOP }
}
fn fixed_random_state() -> std::collections::hash_map::RandomState {
    unsafe { core::mem::transmute::<[u64; 2], std::collections::hash_map::RandomState>([1, 2]) }
}

/// pure stand-in for the hypergeometric pmf: small exact values, sensitive to each argument
fn h_stub(size: u64, successes: u64, draws: u64, observed: u64) -> f64 {
    ((size + 2 * successes + 3 * draws + 4 * observed) % 5) as f64
}
fn h_int(size: usize, successes: usize, draws: usize, observed: usize) -> u32 {
    ((size + 2 * successes + 3 * draws + 4 * observed) % 5) as u32
}

struct MemReader {
    samples: Vec<Sample>,
    record: Vec<genotype::Result>,
    served: bool,
}

impl genotype::Reader for MemReader {
    fn current_contig(&self) -> &str {
        "c"
    }
    fn current_position(&self) -> usize {
        1
    }
    fn read_genotypes(&mut self) -> ReadStatus<Vec<genotype::Result>> {
        if !self.served {
            self.served = true;
            ReadStatus::Read(self.record.clone())
        } else {
            ReadStatus::Done
        }
    }
    fn samples(&self) -> &[Sample] {
        &self.samples
    }
}

/// a symbolic per-sample result; `with_error` adds the ploidy error to the alphabet
fn any_gt(with_error: bool) -> genotype::Result {
    let k: u8 = kani::any();
    kani::assume(k < if with_error { 6 } else { 5 });
    match k {
        0 => genotype::Result::Genotype(Genotype::Zero),
        1 => genotype::Result::Genotype(Genotype::One),
        2 => genotype::Result::Genotype(Genotype::Two),
        3 => genotype::Result::Skipped(Skipped::Missing),
        4 => genotype::Result::Skipped(Skipped::Multiallelic),
        _ => genotype::Result::Error(genotype::Error::PloidyError),
    }
}

fn alt(g: genotype::Result) -> Option<usize> {
    match g {
        genotype::Result::Genotype(Genotype::Zero) => Some(0),
        genotype::Result::Genotype(Genotype::One) => Some(1),
        genotype::Result::Genotype(Genotype::Two) => Some(2),
        _ => None,
    }
}

fn mk_reader<const D: usize>(
    assign: [u8; NS],
    record: [genotype::Result; NS],
    projection: Option<PartialProjection>,
) -> Reader {
    unsafe {
        ASSIGN = assign;
        NPOP = D;
    }
    let reader = MemReader {
        samples: vec![Sample::from("s0"), Sample::from("s1"), Sample::from("s2")],
        record: record.to_vec(),
        served: false,
    };
    let mut r = Reader::new_unchecked(Box::new(reader), sample::Map::default(), projection);
    // dirty pre-state left behind by an arbitrary earlier record
    let mut p = 0;
    while p < D {
        r.counts.0[p] = kani::any();
        r.totals.0[p] = kani::any();
        p += 1;
    }
    r.skipped_samples.push((sample::Id(0), Skipped::Missing));
    r
}

/// per-population ALT count / called chromosomes / whether a selected sample is skipped / errs
struct Oracle<const D: usize> {
    alt: [usize; D],
    called: [usize; D],
    skipped: usize,
    error: bool,
}

fn oracle<const D: usize>(assign: &[u8; NS], g: &[genotype::Result; NS]) -> Oracle<D> {
    let mut o = Oracle {
        alt: [0; D],
        called: [0; D],
        skipped: 0,
        error: false,
    };
    let mut i = 0;
    while i < NS {
        if assign[i] > 0 {
            let p = assign[i] as usize - 1;
            match g[i] {
                genotype::Result::Error(_) => o.error = true,
                genotype::Result::Skipped(_) => o.skipped += 1,
                _ => {
                    o.alt[p] += alt(g[i]).unwrap();
                    o.called[p] += 2;
                }
            }
        }
        i += 1;
    }
    o
}

/// C01 / C08 / C11: no projection.
fn counts_case<const D: usize>(assign: [u8; NS]) {
    let g = [any_gt(true), any_gt(true), any_gt(true)];
    let r = mk_reader::<D>(assign, g, None);
    let o = oracle::<D>(&assign, &g);
    let mut r = core::mem::ManuallyDrop::new(r);
    let status = r.read_site();
    match status {
        ReadStatus::Error(e) => {
            // only a selected sample's ploidy error aborts the record
            assert!(o.error);
            kani::cover!(true, "ploidy error in a selected sample");
            core::mem::forget(e);
            return;
        }
        ReadStatus::Read(Site::Standard(cnt)) => {
            assert!(!o.error);
            assert!(o.skipped == 0);
            assert!(cnt.0.len() == D);
            let mut p = 0;
            while p < D {
                assert!(cnt.0[p] == o.alt[p]);
                p += 1;
            }
            kani::cover!(true, "complete site");
        }
        ReadStatus::Read(Site::InsufficientData) => {
            assert!(!o.error);
            assert!(o.skipped > 0);
            kani::cover!(true, "skipped site");
        }
        ReadStatus::Read(Site::Projected(_)) => assert!(false),
        ReadStatus::Done => assert!(false),
    }
    // the samples reported as skipped are exactly this record's (no left-overs)
    assert!(r.skipped_samples.len() == o.skipped);
}

/// C02 / C11: with a projection target m (symbolic, 0..=2*size_j): the three-way decision.
fn classify_case<const D: usize>(assign: [u8; NS]) {
    let g = [any_gt(false), any_gt(false), any_gt(false)];
    let mut size = [0usize; D];
    let mut i = 0;
    while i < NS {
        if assign[i] > 0 {
            size[assign[i] as usize - 1] += 1;
        }
        i += 1;
    }
    let m: [usize; D] = kani::any();
    let mut p = 0;
    while p < D {
        kani::assume(m[p] <= 2 * size[p]);
        p += 1;
    }
    let projection = PartialProjection::new(Count(m.to_vec()));
    let r = mk_reader::<D>(assign, g, Some(projection));
    let o = oracle::<D>(&assign, &g);
    let mut exact = true;
    let mut enough = true;
    let mut p = 0;
    while p < D {
        if o.called[p] != m[p] {
            exact = false;
        }
        if o.called[p] < m[p] {
            enough = false;
        }
        p += 1;
    }
    let mut r = core::mem::ManuallyDrop::new(r);
    match r.read_site() {
        ReadStatus::Read(Site::Standard(cnt)) => {
            assert!(exact);
            let mut p = 0;
            while p < D {
                assert!(cnt.0[p] == o.alt[p]);
                p += 1;
            }
            kani::cover!(o.skipped > 0, "exactly sufficient with missing samples");
        }
        ReadStatus::Read(Site::Projected(pr)) => {
            assert!(!exact && enough);
            kani::cover!(o.skipped > 0, "projectable with missing samples");
            core::mem::forget(pr);
        }
        ReadStatus::Read(Site::InsufficientData) => {
            assert!(!enough);
            kani::cover!(true, "insufficient");
        }
        _ => assert!(false),
    }
}

/// C02: the values a projected site adds: Π_j H(t_j, a_j, m_j, k_j) at every k of shape (m_j+1),
/// with the target m concrete (it sizes the output) and the pmf replaced by the table `h_stub`.
fn projected_values_case<const D: usize, const M: usize>(assign: [u8; NS], m: [usize; D]) {
    let g = [any_gt(false), any_gt(false), any_gt(false)];
    let projection = PartialProjection::new(Count(m.to_vec()));
    let r = mk_reader::<D>(assign, g, Some(projection));
    let o = oracle::<D>(&assign, &g);
    let mut mshape = [0usize; D];
    let mut p = 0;
    while p < D {
        mshape[p] = m[p] + 1;
        p += 1;
    }
    let mut r = core::mem::ManuallyDrop::new(r);
    let mut scs = r.create_zero_scs();
    assert!(scs.elements() == M);
    match r.read_site() {
        ReadStatus::Read(Site::Projected(pr)) => {
            pr.add_unchecked(&mut scs);
            let out = scs.inner().as_slice();
            let mut q = 0;
            while q < M {
                let k = unrank(&mshape, q);
                let mut w = 1u32;
                let mut p = 0;
                while p < D {
                    w *= h_int(o.called[p], o.alt[p], m[p], k[p]);
                    p += 1;
                }
                assert!(out[q] == w as f64);
                q += 1;
            }
            kani::cover!(true, "projected site");
        }
        ReadStatus::Read(Site::Standard(cnt)) => {
            scs[cnt] += 1.0;
            let out = scs.inner().as_slice();
            let mut alt = [0usize; D];
            let mut p = 0;
            while p < D {
                alt[p] = o.alt[p];
                p += 1;
            }
            let at = rank(&mshape, &alt);
            let mut q = 0;
            while q < M {
                assert!(out[q] == if q == at { 1.0 } else { 0.0 });
                q += 1;
            }
            kani::cover!(true, "exact site");
        }
        ReadStatus::Read(Site::InsufficientData) => {
            kani::cover!(true, "insufficient");
        }
        _ => assert!(false),
    }
    core::mem::forget(scs);
}

macro_rules! stubs_h {
    ($(#[$extra:meta])* $name:ident, $unw:literal, $body:expr) => {
        #[kani::proof]
        #[kani::unwind($unw)]
        #[kani::stub(std::collections::hash_map::RandomState::new, fixed_random_state)]
        #[kani::stub(crate::input::sample::Map::get_population_id, stub_get_population_id)]
        #[kani::stub(crate::input::sample::Map::get_sample_id, stub_get_sample_id)]
        #[kani::stub(crate::input::sample::Map::number_of_populations, stub_number_of_populations)]
        $(#[$extra])*
        fn $name() {
            $body
        }
    };
}

//@@BEGIN SITE_CASES@@
// @harness props=C01,C08,C11,C10 tier=thorough bounds=populations=1,samples=3,assignment=[0,0,1](0=unselected),genotypes=any-of-6-results,dirty-pre-state timeout=1200
stubs_h!(read_site_counts_d1_a001, 8, counts_case::<1>([0, 0, 1]));

// @harness props=C01,C08,C11,C10 tier=thorough bounds=populations=1,samples=3,assignment=[0,1,0](0=unselected),genotypes=any-of-6-results,dirty-pre-state timeout=1200
stubs_h!(read_site_counts_d1_a010, 8, counts_case::<1>([0, 1, 0]));

// @harness props=C01,C08,C11,C10 tier=quick bounds=populations=1,samples=3,assignment=[0,1,1](0=unselected),genotypes=any-of-6-results,dirty-pre-state timeout=1200
stubs_h!(read_site_counts_d1_a011, 8, counts_case::<1>([0, 1, 1]));

// @harness props=C01,C08,C11,C10 tier=quick bounds=populations=1,samples=3,assignment=[1,0,0](0=unselected),genotypes=any-of-6-results,dirty-pre-state timeout=1200
stubs_h!(read_site_counts_d1_a100, 8, counts_case::<1>([1, 0, 0]));

// @harness props=C01,C08,C11,C10 tier=thorough bounds=populations=1,samples=3,assignment=[1,0,1](0=unselected),genotypes=any-of-6-results,dirty-pre-state timeout=1200
stubs_h!(read_site_counts_d1_a101, 8, counts_case::<1>([1, 0, 1]));

// @harness props=C01,C08,C11,C10 tier=thorough bounds=populations=1,samples=3,assignment=[1,1,0](0=unselected),genotypes=any-of-6-results,dirty-pre-state timeout=1200
stubs_h!(read_site_counts_d1_a110, 8, counts_case::<1>([1, 1, 0]));

// @harness props=C01,C08,C11,C10 tier=quick bounds=populations=1,samples=3,assignment=[1,1,1](0=unselected),genotypes=any-of-6-results,dirty-pre-state timeout=1200
stubs_h!(read_site_counts_d1_a111, 8, counts_case::<1>([1, 1, 1]));

// @harness props=C01,C08,C11,C10 tier=thorough bounds=populations=2,samples=3,assignment=[0,1,2](0=unselected),genotypes=any-of-6-results,dirty-pre-state timeout=1200
stubs_h!(read_site_counts_d2_a012, 8, counts_case::<2>([0, 1, 2]));

// @harness props=C01,C08,C11,C10 tier=thorough bounds=populations=2,samples=3,assignment=[0,2,1](0=unselected),genotypes=any-of-6-results,dirty-pre-state timeout=1200
stubs_h!(read_site_counts_d2_a021, 8, counts_case::<2>([0, 2, 1]));

// @harness props=C01,C08,C11,C10 tier=thorough bounds=populations=2,samples=3,assignment=[1,0,2](0=unselected),genotypes=any-of-6-results,dirty-pre-state timeout=1200
stubs_h!(read_site_counts_d2_a102, 8, counts_case::<2>([1, 0, 2]));

// @harness props=C01,C08,C11,C10 tier=quick bounds=populations=2,samples=3,assignment=[1,1,2](0=unselected),genotypes=any-of-6-results,dirty-pre-state timeout=1200
stubs_h!(read_site_counts_d2_a112, 8, counts_case::<2>([1, 1, 2]));

// @harness props=C01,C08,C11,C10 tier=thorough bounds=populations=2,samples=3,assignment=[1,2,0](0=unselected),genotypes=any-of-6-results,dirty-pre-state timeout=1200
stubs_h!(read_site_counts_d2_a120, 8, counts_case::<2>([1, 2, 0]));

// @harness props=C01,C08,C11,C10 tier=quick bounds=populations=2,samples=3,assignment=[1,2,1](0=unselected),genotypes=any-of-6-results,dirty-pre-state timeout=1200
stubs_h!(read_site_counts_d2_a121, 8, counts_case::<2>([1, 2, 1]));

// @harness props=C01,C08,C11,C10 tier=thorough bounds=populations=2,samples=3,assignment=[1,2,2](0=unselected),genotypes=any-of-6-results,dirty-pre-state timeout=1200
stubs_h!(read_site_counts_d2_a122, 8, counts_case::<2>([1, 2, 2]));

// @harness props=C01,C08,C11,C10 tier=quick bounds=populations=2,samples=3,assignment=[2,0,1](0=unselected),genotypes=any-of-6-results,dirty-pre-state timeout=1200
stubs_h!(read_site_counts_d2_a201, 8, counts_case::<2>([2, 0, 1]));

// @harness props=C01,C08,C11,C10 tier=quick bounds=populations=2,samples=3,assignment=[2,1,0](0=unselected),genotypes=any-of-6-results,dirty-pre-state timeout=1200
stubs_h!(read_site_counts_d2_a210, 8, counts_case::<2>([2, 1, 0]));

// @harness props=C01,C08,C11,C10 tier=thorough bounds=populations=2,samples=3,assignment=[2,1,1](0=unselected),genotypes=any-of-6-results,dirty-pre-state timeout=1200
stubs_h!(read_site_counts_d2_a211, 8, counts_case::<2>([2, 1, 1]));

// @harness props=C01,C08,C11,C10 tier=thorough bounds=populations=2,samples=3,assignment=[2,1,2](0=unselected),genotypes=any-of-6-results,dirty-pre-state timeout=1200
stubs_h!(read_site_counts_d2_a212, 8, counts_case::<2>([2, 1, 2]));

// @harness props=C01,C08,C11,C10 tier=thorough bounds=populations=2,samples=3,assignment=[2,2,1](0=unselected),genotypes=any-of-6-results,dirty-pre-state timeout=1200
stubs_h!(read_site_counts_d2_a221, 8, counts_case::<2>([2, 2, 1]));

// @harness props=C01,C08,C11,C10 tier=quick bounds=populations=3,samples=3,assignment=[1,2,3](0=unselected),genotypes=any-of-6-results,dirty-pre-state timeout=1200
stubs_h!(read_site_counts_d3_a123, 8, counts_case::<3>([1, 2, 3]));

// @harness props=C01,C08,C11,C10 tier=thorough bounds=populations=3,samples=3,assignment=[1,3,2](0=unselected),genotypes=any-of-6-results,dirty-pre-state timeout=1200
stubs_h!(read_site_counts_d3_a132, 8, counts_case::<3>([1, 3, 2]));

// @harness props=C01,C08,C11,C10 tier=thorough bounds=populations=3,samples=3,assignment=[2,1,3](0=unselected),genotypes=any-of-6-results,dirty-pre-state timeout=1200
stubs_h!(read_site_counts_d3_a213, 8, counts_case::<3>([2, 1, 3]));

// @harness props=C01,C08,C11,C10 tier=thorough bounds=populations=3,samples=3,assignment=[2,3,1](0=unselected),genotypes=any-of-6-results,dirty-pre-state timeout=1200
stubs_h!(read_site_counts_d3_a231, 8, counts_case::<3>([2, 3, 1]));

// @harness props=C01,C08,C11,C10 tier=quick bounds=populations=3,samples=3,assignment=[3,1,2](0=unselected),genotypes=any-of-6-results,dirty-pre-state timeout=1200
stubs_h!(read_site_counts_d3_a312, 8, counts_case::<3>([3, 1, 2]));

// @harness props=C01,C08,C11,C10 tier=thorough bounds=populations=3,samples=3,assignment=[3,2,1](0=unselected),genotypes=any-of-6-results,dirty-pre-state timeout=1200
stubs_h!(read_site_counts_d3_a321, 8, counts_case::<3>([3, 2, 1]));

// @harness props=C02,C11,C10 tier=thorough bounds=populations=1,samples=3,assignment=[0,0,1],target=symbolic-0..2*size,genotypes=any-of-5-results,dirty-pre-state timeout=1200
stubs_h!(read_site_classify_d1_a001, 8, classify_case::<1>([0, 0, 1]));

// @harness props=C02,C11,C10 tier=thorough bounds=populations=1,samples=3,assignment=[0,1,0],target=symbolic-0..2*size,genotypes=any-of-5-results,dirty-pre-state timeout=1200
stubs_h!(read_site_classify_d1_a010, 8, classify_case::<1>([0, 1, 0]));

// @harness props=C02,C11,C10 tier=quick bounds=populations=1,samples=3,assignment=[0,1,1],target=symbolic-0..2*size,genotypes=any-of-5-results,dirty-pre-state timeout=1200
stubs_h!(read_site_classify_d1_a011, 8, classify_case::<1>([0, 1, 1]));

// @harness props=C02,C11,C10 tier=thorough bounds=populations=1,samples=3,assignment=[1,0,0],target=symbolic-0..2*size,genotypes=any-of-5-results,dirty-pre-state timeout=1200
stubs_h!(read_site_classify_d1_a100, 8, classify_case::<1>([1, 0, 0]));

// @harness props=C02,C11,C10 tier=thorough bounds=populations=1,samples=3,assignment=[1,0,1],target=symbolic-0..2*size,genotypes=any-of-5-results,dirty-pre-state timeout=1200
stubs_h!(read_site_classify_d1_a101, 8, classify_case::<1>([1, 0, 1]));

// @harness props=C02,C11,C10 tier=thorough bounds=populations=1,samples=3,assignment=[1,1,0],target=symbolic-0..2*size,genotypes=any-of-5-results,dirty-pre-state timeout=1200
stubs_h!(read_site_classify_d1_a110, 8, classify_case::<1>([1, 1, 0]));

// @harness props=C02,C11,C10 tier=quick bounds=populations=1,samples=3,assignment=[1,1,1],target=symbolic-0..2*size,genotypes=any-of-5-results,dirty-pre-state timeout=1200
stubs_h!(read_site_classify_d1_a111, 8, classify_case::<1>([1, 1, 1]));

// @harness props=C02,C11,C10 tier=thorough bounds=populations=2,samples=3,assignment=[0,1,2],target=symbolic-0..2*size,genotypes=any-of-5-results,dirty-pre-state timeout=1200
stubs_h!(read_site_classify_d2_a012, 8, classify_case::<2>([0, 1, 2]));

// @harness props=C02,C11,C10 tier=thorough bounds=populations=2,samples=3,assignment=[0,2,1],target=symbolic-0..2*size,genotypes=any-of-5-results,dirty-pre-state timeout=1200
stubs_h!(read_site_classify_d2_a021, 8, classify_case::<2>([0, 2, 1]));

// @harness props=C02,C11,C10 tier=thorough bounds=populations=2,samples=3,assignment=[1,0,2],target=symbolic-0..2*size,genotypes=any-of-5-results,dirty-pre-state timeout=1200
stubs_h!(read_site_classify_d2_a102, 8, classify_case::<2>([1, 0, 2]));

// @harness props=C02,C11,C10 tier=quick bounds=populations=2,samples=3,assignment=[1,1,2],target=symbolic-0..2*size,genotypes=any-of-5-results,dirty-pre-state timeout=1200
stubs_h!(read_site_classify_d2_a112, 8, classify_case::<2>([1, 1, 2]));

// @harness props=C02,C11,C10 tier=thorough bounds=populations=2,samples=3,assignment=[1,2,0],target=symbolic-0..2*size,genotypes=any-of-5-results,dirty-pre-state timeout=1200
stubs_h!(read_site_classify_d2_a120, 8, classify_case::<2>([1, 2, 0]));

// @harness props=C02,C11,C10 tier=quick bounds=populations=2,samples=3,assignment=[1,2,1],target=symbolic-0..2*size,genotypes=any-of-5-results,dirty-pre-state timeout=1200
stubs_h!(read_site_classify_d2_a121, 8, classify_case::<2>([1, 2, 1]));

// @harness props=C02,C11,C10 tier=thorough bounds=populations=2,samples=3,assignment=[1,2,2],target=symbolic-0..2*size,genotypes=any-of-5-results,dirty-pre-state timeout=1200
stubs_h!(read_site_classify_d2_a122, 8, classify_case::<2>([1, 2, 2]));

// @harness props=C02,C11,C10 tier=quick bounds=populations=2,samples=3,assignment=[2,0,1],target=symbolic-0..2*size,genotypes=any-of-5-results,dirty-pre-state timeout=1200
stubs_h!(read_site_classify_d2_a201, 8, classify_case::<2>([2, 0, 1]));

// @harness props=C02,C11,C10 tier=thorough bounds=populations=2,samples=3,assignment=[2,1,0],target=symbolic-0..2*size,genotypes=any-of-5-results,dirty-pre-state timeout=1200
stubs_h!(read_site_classify_d2_a210, 8, classify_case::<2>([2, 1, 0]));

// @harness props=C02,C11,C10 tier=thorough bounds=populations=2,samples=3,assignment=[2,1,1],target=symbolic-0..2*size,genotypes=any-of-5-results,dirty-pre-state timeout=1200
stubs_h!(read_site_classify_d2_a211, 8, classify_case::<2>([2, 1, 1]));

// @harness props=C02,C11,C10 tier=thorough bounds=populations=2,samples=3,assignment=[2,1,2],target=symbolic-0..2*size,genotypes=any-of-5-results,dirty-pre-state timeout=1200
stubs_h!(read_site_classify_d2_a212, 8, classify_case::<2>([2, 1, 2]));

// @harness props=C02,C11,C10 tier=thorough bounds=populations=2,samples=3,assignment=[2,2,1],target=symbolic-0..2*size,genotypes=any-of-5-results,dirty-pre-state timeout=1200
stubs_h!(read_site_classify_d2_a221, 8, classify_case::<2>([2, 2, 1]));

// @harness props=C02,C11,C10 tier=quick bounds=populations=3,samples=3,assignment=[1,2,3],target=symbolic-0..2*size,genotypes=any-of-5-results,dirty-pre-state timeout=1200
stubs_h!(read_site_classify_d3_a123, 8, classify_case::<3>([1, 2, 3]));

// @harness props=C02,C11,C10 tier=thorough bounds=populations=3,samples=3,assignment=[1,3,2],target=symbolic-0..2*size,genotypes=any-of-5-results,dirty-pre-state timeout=1200
stubs_h!(read_site_classify_d3_a132, 8, classify_case::<3>([1, 3, 2]));

// @harness props=C02,C11,C10 tier=thorough bounds=populations=3,samples=3,assignment=[2,1,3],target=symbolic-0..2*size,genotypes=any-of-5-results,dirty-pre-state timeout=1200
stubs_h!(read_site_classify_d3_a213, 8, classify_case::<3>([2, 1, 3]));

// @harness props=C02,C11,C10 tier=thorough bounds=populations=3,samples=3,assignment=[2,3,1],target=symbolic-0..2*size,genotypes=any-of-5-results,dirty-pre-state timeout=1200
stubs_h!(read_site_classify_d3_a231, 8, classify_case::<3>([2, 3, 1]));

// @harness props=C02,C11,C10 tier=thorough bounds=populations=3,samples=3,assignment=[3,1,2],target=symbolic-0..2*size,genotypes=any-of-5-results,dirty-pre-state timeout=1200
stubs_h!(read_site_classify_d3_a312, 8, classify_case::<3>([3, 1, 2]));

// @harness props=C02,C11,C10 tier=thorough bounds=populations=3,samples=3,assignment=[3,2,1],target=symbolic-0..2*size,genotypes=any-of-5-results,dirty-pre-state timeout=1200
stubs_h!(read_site_classify_d3_a321, 8, classify_case::<3>([3, 2, 1]));

// @harness props=C02,C11 tier=thorough group=f64 bounds=populations=1,samples=3,assignment=[1,1,0],target=[0],genotypes=any-of-5-results,pmf=table-stub timeout=1800
stubs_h!(#[kani::stub(crate::utils::hypergeometric_pmf, h_stub)] read_site_projected_values_a110_m0, 8, projected_values_case::<1, 1>([1, 1, 0], [0]));

// @harness props=C02,C11 tier=quick group=f64 bounds=populations=1,samples=3,assignment=[1,1,0],target=[1],genotypes=any-of-5-results,pmf=table-stub timeout=1800
stubs_h!(#[kani::stub(crate::utils::hypergeometric_pmf, h_stub)] read_site_projected_values_a110_m1, 8, projected_values_case::<1, 2>([1, 1, 0], [1]));

// @harness props=C02,C11 tier=quick group=f64 bounds=populations=1,samples=3,assignment=[1,1,1],target=[2],genotypes=any-of-5-results,pmf=table-stub timeout=1800
stubs_h!(#[kani::stub(crate::utils::hypergeometric_pmf, h_stub)] read_site_projected_values_a111_m2, 8, projected_values_case::<1, 3>([1, 1, 1], [2]));

// @harness props=C02,C11 tier=thorough group=f64 bounds=populations=1,samples=3,assignment=[1,0,1],target=[3],genotypes=any-of-5-results,pmf=table-stub timeout=1800
stubs_h!(#[kani::stub(crate::utils::hypergeometric_pmf, h_stub)] read_site_projected_values_a101_m3, 8, projected_values_case::<1, 4>([1, 0, 1], [3]));

// @harness props=C02,C11 tier=thorough group=f64 bounds=populations=1,samples=3,assignment=[1,1,1],target=[4],genotypes=any-of-5-results,pmf=table-stub timeout=1800
stubs_h!(#[kani::stub(crate::utils::hypergeometric_pmf, h_stub)] read_site_projected_values_a111_m4, 9, projected_values_case::<1, 5>([1, 1, 1], [4]));

// @harness props=C02,C11 tier=quick group=f64 bounds=populations=2,samples=3,assignment=[1,2,1],target=[1,2],genotypes=any-of-5-results,pmf=table-stub timeout=1800
stubs_h!(#[kani::stub(crate::utils::hypergeometric_pmf, h_stub)] read_site_projected_values_a121_m12, 10, projected_values_case::<2, 6>([1, 2, 1], [1, 2]));

// @harness props=C02,C11 tier=quick group=f64 bounds=populations=2,samples=3,assignment=[2,1,1],target=[2,1],genotypes=any-of-5-results,pmf=table-stub timeout=1800
stubs_h!(#[kani::stub(crate::utils::hypergeometric_pmf, h_stub)] read_site_projected_values_a211_m21, 10, projected_values_case::<2, 6>([2, 1, 1], [2, 1]));

// @harness props=C02,C11 tier=thorough group=f64 bounds=populations=2,samples=3,assignment=[1,2,0],target=[0,1],genotypes=any-of-5-results,pmf=table-stub timeout=1800
stubs_h!(#[kani::stub(crate::utils::hypergeometric_pmf, h_stub)] read_site_projected_values_a120_m01, 8, projected_values_case::<2, 2>([1, 2, 0], [0, 1]));

// @harness props=C02,C11 tier=thorough group=f64 bounds=populations=2,samples=3,assignment=[1,2,2],target=[2,2],genotypes=any-of-5-results,pmf=table-stub timeout=1800
stubs_h!(#[kani::stub(crate::utils::hypergeometric_pmf, h_stub)] read_site_projected_values_a122_m22, 13, projected_values_case::<2, 9>([1, 2, 2], [2, 2]));

// @harness props=C02,C11 tier=thorough group=f64 bounds=populations=3,samples=3,assignment=[1,2,3],target=[1,1,1],genotypes=any-of-5-results,pmf=table-stub timeout=1800
stubs_h!(#[kani::stub(crate::utils::hypergeometric_pmf, h_stub)] read_site_projected_values_a123_m111, 12, projected_values_case::<3, 8>([1, 2, 3], [1, 1, 1]));

//@@END SITE_CASES@@


