// Child module of crate::input::site::reader (sees Reader's private fields and new_unchecked).
// @inject crate=sfs-core file=core/src/input/site/reader.rs mod=kv_site_reader
//
// The site-reader kernel `Reader::read_site` driven by an in-memory genotype::Reader.
// * sample::Map lookups are replaced by a table model (the real IndexMap/HashMap is out of reach,
//   DESIGN section 1 / C09); the sample -> population assignment is concrete per harness and every
//   assignment of 3 samples is enumerated, genotypes are symbolic.
// * every harness starts from an arbitrary DIRTY pre-state (counts, totals, skipped_samples of a
//   previous record), so one step covers histories of any length (C11).
#![allow(unused_imports, unsafe_code)]
use super::*;
use crate::input::genotype::{Genotype, Skipped};
use crate::input::sample::population;
use crate::spectrum::project::PartialProjection;

#[path = "../util.rs"]
mod util;
use util::*;

const NS: usize = 3;

// The model map is encoded in the sample names themselves: sample i is called "s<i><a>" where
// a = 0 means "not selected" and a = j+1 means "population j"; no global state is needed.
fn sample_index(s: &Sample) -> usize {
    (s.as_ref().as_bytes()[1] - b'0') as usize
}
fn sample_assign(s: &Sample) -> usize {
    (s.as_ref().as_bytes()[2] - b'0') as usize
}
fn sample_rank(s: &Sample) -> usize {
    (s.as_ref().as_bytes()[3] - b'0') as usize
}

fn stub_get_population_id(_m: &sample::Map, s: &Sample) -> Option<population::Id> {
    let a = sample_assign(s);
    if a == 0 {
        None
    } else {
        Some(population::Id(a - 1))
    }
}
/// sample ids = rank among the selected samples (insertion order of the model map)
fn stub_get_sample_id(_m: &sample::Map, s: &Sample) -> Option<sample::Id> {
    if sample_assign(s) == 0 {
        None
    } else {
        Some(sample::Id(sample_rank(s)))
    }
}
fn stub_npop_1(_m: &sample::Map) -> usize {
    1
}
fn stub_npop_2(_m: &sample::Map) -> usize {
    2
}
fn stub_npop_3(_m: &sample::Map) -> usize {
    3
}
/// a Vec whose length CBMC knows syntactically (loop-and-push; `to_vec()` hides it and every
/// allocation sized from it then becomes a symbolic-size array: out of memory)
fn vec_of<const D: usize>(m: &[usize; D]) -> Vec<usize> {
    let mut v = Vec::with_capacity(D);
    let mut p = 0;
    while p < D {
        v.push(m[p]);
        p += 1;
    }
    v
}

fn sample_name(i: usize, assign: &[u8; NS]) -> Sample {
    let mut rank = 0u8;
    let mut j = 0;
    while j < i {
        if assign[j] != 0 {
            rank += 1;
        }
        j += 1;
    }
    let bytes = [b's', b'0' + i as u8, b'0' + assign[i], b'0' + rank];
    Sample::from(core::str::from_utf8(&bytes).unwrap())
}
fn fixed_random_state() -> std::collections::hash_map::RandomState {
    unsafe { core::mem::transmute::<[u64; 2], std::collections::hash_map::RandomState>([1, 2]) }
}

/// pure stand-in for the hypergeometric pmf: small exact values, sensitive to each argument
fn h_stub(size: u64, successes: u64, draws: u64, observed: u64) -> f64 {
    ((size + 2 * successes + 3 * draws + 4 * observed) % 5) as f64
}
#[cfg(not(kv_replay))]
fn h_ref(size: usize, successes: usize, draws: usize, observed: usize) -> f64 {
    ((size + 2 * successes + 3 * draws + 4 * observed) % 5) as f64
}
/// native replay: no stub is applied, so the reference is the exact hypergeometric probability
#[cfg(kv_replay)]
fn h_ref(size: usize, successes: usize, draws: usize, observed: usize) -> f64 {
    fn c(n: usize, k: usize) -> u128 {
        if k > n {
            return 0;
        }
        let mut r: u128 = 1;
        for i in 0..k {
            r = r * (n - i) as u128 / (i + 1) as u128;
        }
        r
    }
    if observed > draws || successes > size || draws > size {
        return 0.0;
    }
    (c(successes, observed) * c(size - successes, draws - observed)) as f64 / c(size, draws) as f64
}
#[cfg(not(kv_replay))]
fn same(a: f64, b: f64) -> bool {
    a == b
}
#[cfg(kv_replay)]
fn same(a: f64, b: f64) -> bool {
    close(a, b)
}

/// Under Kani the map is the empty default (every lookup goes through the table-model stubs).
/// In the native replay build (`--cfg kv_replay`, no stubs) it is the REAL sample::Map holding the
/// same assignment: entries listed population by population so that first-appearance ids agree.
#[cfg(not(kv_replay))]
fn model_map<const D: usize>(_assign: &[u8; NS]) -> sample::Map {
    sample::Map::default()
}
#[cfg(kv_replay)]
fn model_map<const D: usize>(assign: &[u8; NS]) -> sample::Map {
    let mut list: Vec<(String, Option<String>)> = Vec::new();
    for p in 0..D {
        for i in 0..NS {
            if assign[i] as usize == p + 1 {
                list.push((sample_name(i, assign).as_ref().to_string(), Some(format!("pop{p}"))));
            }
        }
    }
    sample::Map::from_iter(list)
}

struct MemReader {
    samples: Vec<Sample>,
    record: Vec<genotype::Result>,
    served: bool,
}

impl genotype::Reader for MemReader {
    fn current_contig(&self) -> &str {
        "c"
    }
    fn current_position(&self) -> usize {
        1
    }
    fn read_genotypes(&mut self) -> ReadStatus<Vec<genotype::Result>> {
        if !self.served {
            self.served = true;
            ReadStatus::Read(self.record.clone())
        } else {
            ReadStatus::Done
        }
    }
    fn samples(&self) -> &[Sample] {
        &self.samples
    }
}

/// a symbolic per-sample result; `with_error` adds the ploidy error to the alphabet
fn any_gt(with_error: bool) -> genotype::Result {
    let k: u8 = kani::any();
    kani::assume(k < if with_error { 6 } else { 5 });
    match k {
        0 => genotype::Result::Genotype(Genotype::Zero),
        1 => genotype::Result::Genotype(Genotype::One),
        2 => genotype::Result::Genotype(Genotype::Two),
        3 => genotype::Result::Skipped(Skipped::Missing),
        4 => genotype::Result::Skipped(Skipped::Multiallelic),
        _ => genotype::Result::Error(genotype::Error::PloidyError),
    }
}

fn alt(g: genotype::Result) -> Option<usize> {
    match g {
        genotype::Result::Genotype(Genotype::Zero) => Some(0),
        genotype::Result::Genotype(Genotype::One) => Some(1),
        genotype::Result::Genotype(Genotype::Two) => Some(2),
        _ => None,
    }
}

fn mk_reader<const D: usize>(
    assign: [u8; NS],
    record: [genotype::Result; NS],
    projection: Option<PartialProjection>,
    dirty_skipped: Option<bool>,
) -> Reader {
    let reader = MemReader {
        samples: vec![sample_name(0, &assign), sample_name(1, &assign), sample_name(2, &assign)],
        record: record.to_vec(),
        served: false,
    };
    let mut r = Reader::new_unchecked(Box::new(reader), model_map::<D>(&assign), projection);
    // dirty pre-state left behind by an arbitrary earlier record
    let mut p = 0;
    while p < D {
        r.counts.0[p] = kani::any();
        r.totals.0[p] = kani::any();
        p += 1;
    }
    // ... including an empty or non-empty list of skipped samples (solver's choice without a
    // projection; concrete per harness with one: a symbolic list length there runs CBMC out of memory)
    let nonempty = match dirty_skipped {
        Some(b) => b,
        None => kani::any(),
    };
    if nonempty {
        r.skipped_samples.push((sample::Id(0), Skipped::Missing));
    }
    r
}

/// per-population ALT count / called chromosomes / whether a selected sample is skipped / errs
struct Oracle<const D: usize> {
    alt: [usize; D],
    called: [usize; D],
    skipped: usize,
    error: bool,
}

fn oracle<const D: usize>(assign: &[u8; NS], g: &[genotype::Result; NS]) -> Oracle<D> {
    let mut o = Oracle {
        alt: [0; D],
        called: [0; D],
        skipped: 0,
        error: false,
    };
    let mut i = 0;
    while i < NS {
        if assign[i] > 0 {
            let p = assign[i] as usize - 1;
            match g[i] {
                genotype::Result::Error(_) => o.error = true,
                genotype::Result::Skipped(_) => o.skipped += 1,
                _ => {
                    o.alt[p] += alt(g[i]).unwrap();
                    o.called[p] += 2;
                }
            }
        }
        i += 1;
    }
    o
}

/// C01 / C08 / C11: no projection.
fn counts_case<const D: usize>(assign: [u8; NS]) {
    let g = [any_gt(true), any_gt(true), any_gt(true)];
    let r = mk_reader::<D>(assign, g, None, None);
    let o = oracle::<D>(&assign, &g);
    let mut r = core::mem::ManuallyDrop::new(r);
    let status = r.read_site();
    match status {
        ReadStatus::Error(e) => {
            // only a selected sample's ploidy error aborts the record
            assert!(o.error);
            kani::cover!(true, "ploidy error in a selected sample");
            core::mem::forget(e);
            return;
        }
        ReadStatus::Read(Site::Standard(cnt)) => {
            assert!(!o.error);
            assert!(o.skipped == 0);
            assert!(cnt.0.len() == D);
            let mut p = 0;
            while p < D {
                assert!(cnt.0[p] == o.alt[p]);
                p += 1;
            }
            kani::cover!(true, "complete site");
        }
        ReadStatus::Read(Site::InsufficientData) => {
            assert!(!o.error);
            assert!(o.skipped > 0);
            kani::cover!(true, "skipped site");
        }
        ReadStatus::Read(Site::Projected(_)) => assert!(false),
        ReadStatus::Done => assert!(false),
    }
    // the samples reported as skipped are exactly this record's (no left-overs)
    assert!(r.skipped_samples.len() == o.skipped);
}

/// C02 / C11: with a projection target m (symbolic, 0..=2*size_j): the three-way decision.
/// The called/skipped pattern is concrete per harness (a symbolic one makes CBMC's array
/// post-processing run out of memory once a projection is present, and looping over the patterns
/// inside one harness costs > 700 s of symbolic execution); allele counts, skip reasons and the
/// target stay symbolic.
fn classify_case<const D: usize>(assign: [u8; NS], pattern: usize) {
    let g = gts_with_pattern(pattern);
    let mut size = [0usize; D];
    let mut i = 0;
    while i < NS {
        if assign[i] > 0 {
            size[assign[i] as usize - 1] += 1;
        }
        i += 1;
    }
    let m: [usize; D] = kani::any();
    let mut p = 0;
    while p < D {
        kani::assume(m[p] <= 2 * size[p]);
        p += 1;
    }
    let projection = PartialProjection::new(Count(vec_of(&m)));
    let r = mk_reader::<D>(assign, g, Some(projection), Some(pattern != 6 && pattern != 7));
    let o = oracle::<D>(&assign, &g);
    let mut exact = true;
    let mut enough = true;
    let mut p = 0;
    while p < D {
        if o.called[p] != m[p] {
            exact = false;
        }
        if o.called[p] < m[p] {
            enough = false;
        }
        p += 1;
    }
    let mut r = core::mem::ManuallyDrop::new(r);
    match r.read_site() {
        ReadStatus::Read(Site::Standard(cnt)) => {
            assert!(exact);
            let mut p = 0;
            while p < D {
                assert!(cnt.0[p] == o.alt[p]);
                p += 1;
            }
            
        }
        ReadStatus::Read(Site::Projected(pr)) => {
            assert!(!exact && enough);
            
            core::mem::forget(pr);
        }
        ReadStatus::Read(Site::InsufficientData) => {
            assert!(!enough);
        }
        _ => assert!(false),
    }
    kani::cover!(true, "reached end");
}

/// (NOT RUN: every instance of this harness ran CBMC out of memory; kept for reference, see DESIGN
/// section 0.  The claim is assembled from read_site_wiring + classify + the project.rs harnesses.)
/// C02: the values a projected site adds: Π_j H(t_j, a_j, m_j, k_j) at every k of shape (m_j+1),
/// with the target m concrete (it sizes the output) and the pmf replaced by the table `h_stub`.
fn projected_values_case<const D: usize, const M: usize>(assign: [u8; NS], m: [usize; D], pattern: usize) {
    let g = gts_with_pattern(pattern);
    let projection = PartialProjection::new(Count(vec_of(&m)));
    let r = mk_reader::<D>(assign, g, Some(projection), Some(pattern != 6 && pattern != 7));
    let o = oracle::<D>(&assign, &g);
    let mut mshape = [0usize; D];
    let mut p = 0;
    while p < D {
        mshape[p] = m[p] + 1;
        p += 1;
    }
    let mut r = core::mem::ManuallyDrop::new(r);
    let mut scs = r.create_zero_scs();
    assert!(scs.elements() == M);
    match r.read_site() {
        ReadStatus::Read(Site::Projected(pr)) => {
            pr.add_unchecked(&mut scs);
            let out = scs.inner().as_slice();
            let mut q = 0;
            while q < M {
                let k = unrank(&mshape, q);
                let mut w = 1.0f64;
                let mut p = 0;
                while p < D {
                    w *= h_ref(o.called[p], o.alt[p], m[p], k[p]);
                    p += 1;
                }
                assert!(same(out[q], w));
                q += 1;
            }
            
        }
        ReadStatus::Read(Site::Standard(cnt)) => {
            scs[cnt] += 1.0;
            let out = scs.inner().as_slice();
            let mut alt = [0usize; D];
            let mut p = 0;
            while p < D {
                alt[p] = o.alt[p];
                p += 1;
            }
            let at = rank(&mshape, &alt);
            let mut q = 0;
            while q < M {
                assert!(out[q] == if q == at { 1.0 } else { 0.0 });
                q += 1;
            }
            
        }
        ReadStatus::Read(Site::InsufficientData) => {}
        _ => assert!(false),
    }
    kani::cover!(true, "reached end");
    core::mem::forget(scs);
}

macro_rules! stubs_h {
    ($(#[$extra:meta])* $name:ident, $npop:ident, $unw:literal, $body:expr) => {
        #[kani::proof]
        #[kani::unwind($unw)]
        #[kani::stub(std::collections::hash_map::RandomState::new, fixed_random_state)]
        #[kani::stub(crate::input::sample::Map::get_population_id, stub_get_population_id)]
        #[kani::stub(crate::input::sample::Map::get_sample_id, stub_get_sample_id)]
        #[kani::stub(crate::input::sample::Map::number_of_populations, $npop)]
        $(#[$extra])*
        fn $name() {
            $body
        }
    };
}

//@@BEGIN SITE_CASES@@
// @harness props=C01,C08,C11,C10 tier=thorough bounds=populations=1,samples=3,assignment=[0,0,1](0=unselected),genotypes=any-of-6-results,dirty-pre-state timeout=1200
stubs_h!(read_site_counts_d1_a001, stub_npop_1, 8, counts_case::<1>([0, 0, 1]));

// @harness props=C01,C08,C11,C10 tier=thorough bounds=populations=1,samples=3,assignment=[0,1,0](0=unselected),genotypes=any-of-6-results,dirty-pre-state timeout=1200
stubs_h!(read_site_counts_d1_a010, stub_npop_1, 8, counts_case::<1>([0, 1, 0]));

// @harness props=C01,C08,C11,C10 tier=quick bounds=populations=1,samples=3,assignment=[0,1,1](0=unselected),genotypes=any-of-6-results,dirty-pre-state timeout=1200
stubs_h!(read_site_counts_d1_a011, stub_npop_1, 8, counts_case::<1>([0, 1, 1]));

// @harness props=C01,C08,C11,C10 tier=quick bounds=populations=1,samples=3,assignment=[1,0,0](0=unselected),genotypes=any-of-6-results,dirty-pre-state timeout=1200
stubs_h!(read_site_counts_d1_a100, stub_npop_1, 8, counts_case::<1>([1, 0, 0]));

// @harness props=C01,C08,C11,C10 tier=thorough bounds=populations=1,samples=3,assignment=[1,0,1](0=unselected),genotypes=any-of-6-results,dirty-pre-state timeout=1200
stubs_h!(read_site_counts_d1_a101, stub_npop_1, 8, counts_case::<1>([1, 0, 1]));

// @harness props=C01,C08,C11,C10 tier=thorough bounds=populations=1,samples=3,assignment=[1,1,0](0=unselected),genotypes=any-of-6-results,dirty-pre-state timeout=1200
stubs_h!(read_site_counts_d1_a110, stub_npop_1, 8, counts_case::<1>([1, 1, 0]));

// @harness props=C01,C08,C11,C10 tier=quick bounds=populations=1,samples=3,assignment=[1,1,1](0=unselected),genotypes=any-of-6-results,dirty-pre-state timeout=1200
stubs_h!(read_site_counts_d1_a111, stub_npop_1, 8, counts_case::<1>([1, 1, 1]));

// @harness props=C01,C08,C11,C10 tier=thorough bounds=populations=2,samples=3,assignment=[0,1,2](0=unselected),genotypes=any-of-6-results,dirty-pre-state timeout=1200
stubs_h!(read_site_counts_d2_a012, stub_npop_2, 8, counts_case::<2>([0, 1, 2]));

// @harness props=C01,C08,C11,C10 tier=thorough bounds=populations=2,samples=3,assignment=[0,2,1](0=unselected),genotypes=any-of-6-results,dirty-pre-state timeout=1200
stubs_h!(read_site_counts_d2_a021, stub_npop_2, 8, counts_case::<2>([0, 2, 1]));

// @harness props=C01,C08,C11,C10 tier=thorough bounds=populations=2,samples=3,assignment=[1,0,2](0=unselected),genotypes=any-of-6-results,dirty-pre-state timeout=1200
stubs_h!(read_site_counts_d2_a102, stub_npop_2, 8, counts_case::<2>([1, 0, 2]));

// @harness props=C01,C08,C11,C10 tier=quick bounds=populations=2,samples=3,assignment=[1,1,2](0=unselected),genotypes=any-of-6-results,dirty-pre-state timeout=1200
stubs_h!(read_site_counts_d2_a112, stub_npop_2, 8, counts_case::<2>([1, 1, 2]));

// @harness props=C01,C08,C11,C10 tier=thorough bounds=populations=2,samples=3,assignment=[1,2,0](0=unselected),genotypes=any-of-6-results,dirty-pre-state timeout=1200
stubs_h!(read_site_counts_d2_a120, stub_npop_2, 8, counts_case::<2>([1, 2, 0]));

// @harness props=C01,C08,C11,C10 tier=quick bounds=populations=2,samples=3,assignment=[1,2,1](0=unselected),genotypes=any-of-6-results,dirty-pre-state timeout=1200
stubs_h!(read_site_counts_d2_a121, stub_npop_2, 8, counts_case::<2>([1, 2, 1]));

// @harness props=C01,C08,C11,C10 tier=thorough bounds=populations=2,samples=3,assignment=[1,2,2](0=unselected),genotypes=any-of-6-results,dirty-pre-state timeout=1200
stubs_h!(read_site_counts_d2_a122, stub_npop_2, 8, counts_case::<2>([1, 2, 2]));

// @harness props=C01,C08,C11,C10 tier=quick bounds=populations=2,samples=3,assignment=[2,0,1](0=unselected),genotypes=any-of-6-results,dirty-pre-state timeout=1200
stubs_h!(read_site_counts_d2_a201, stub_npop_2, 8, counts_case::<2>([2, 0, 1]));

// @harness props=C01,C08,C11,C10 tier=quick bounds=populations=2,samples=3,assignment=[2,1,0](0=unselected),genotypes=any-of-6-results,dirty-pre-state timeout=1200
stubs_h!(read_site_counts_d2_a210, stub_npop_2, 8, counts_case::<2>([2, 1, 0]));

// @harness props=C01,C08,C11,C10 tier=thorough bounds=populations=2,samples=3,assignment=[2,1,1](0=unselected),genotypes=any-of-6-results,dirty-pre-state timeout=1200
stubs_h!(read_site_counts_d2_a211, stub_npop_2, 8, counts_case::<2>([2, 1, 1]));

// @harness props=C01,C08,C11,C10 tier=thorough bounds=populations=2,samples=3,assignment=[2,1,2](0=unselected),genotypes=any-of-6-results,dirty-pre-state timeout=1200
stubs_h!(read_site_counts_d2_a212, stub_npop_2, 8, counts_case::<2>([2, 1, 2]));

// @harness props=C01,C08,C11,C10 tier=thorough bounds=populations=2,samples=3,assignment=[2,2,1](0=unselected),genotypes=any-of-6-results,dirty-pre-state timeout=1200
stubs_h!(read_site_counts_d2_a221, stub_npop_2, 8, counts_case::<2>([2, 2, 1]));

// @harness props=C01,C08,C11,C10 tier=quick bounds=populations=3,samples=3,assignment=[1,2,3](0=unselected),genotypes=any-of-6-results,dirty-pre-state timeout=1200
stubs_h!(read_site_counts_d3_a123, stub_npop_3, 8, counts_case::<3>([1, 2, 3]));

// @harness props=C01,C08,C11,C10 tier=thorough bounds=populations=3,samples=3,assignment=[1,3,2](0=unselected),genotypes=any-of-6-results,dirty-pre-state timeout=1200
stubs_h!(read_site_counts_d3_a132, stub_npop_3, 8, counts_case::<3>([1, 3, 2]));

// @harness props=C01,C08,C11,C10 tier=thorough bounds=populations=3,samples=3,assignment=[2,1,3](0=unselected),genotypes=any-of-6-results,dirty-pre-state timeout=1200
stubs_h!(read_site_counts_d3_a213, stub_npop_3, 8, counts_case::<3>([2, 1, 3]));

// @harness props=C01,C08,C11,C10 tier=thorough bounds=populations=3,samples=3,assignment=[2,3,1](0=unselected),genotypes=any-of-6-results,dirty-pre-state timeout=1200
stubs_h!(read_site_counts_d3_a231, stub_npop_3, 8, counts_case::<3>([2, 3, 1]));

// @harness props=C01,C08,C11,C10 tier=quick bounds=populations=3,samples=3,assignment=[3,1,2](0=unselected),genotypes=any-of-6-results,dirty-pre-state timeout=1200
stubs_h!(read_site_counts_d3_a312, stub_npop_3, 8, counts_case::<3>([3, 1, 2]));

// @harness props=C01,C08,C11,C10 tier=thorough bounds=populations=3,samples=3,assignment=[3,2,1](0=unselected),genotypes=any-of-6-results,dirty-pre-state timeout=1200
stubs_h!(read_site_counts_d3_a321, stub_npop_3, 8, counts_case::<3>([3, 2, 1]));

// @harness props=C02,C11,C10 tier=thorough bounds=populations=1,samples=3,assignment=[0,0,1],called-pattern=111,target=symbolic-0..2*size,allele-counts=symbolic,dirty-pre-state timeout=900
stubs_h!(read_site_classify_d1_a001_p7, stub_npop_1, 8, classify_case::<1>([0, 0, 1], 7));

// @harness props=C02,C11,C10 tier=thorough bounds=populations=1,samples=3,assignment=[0,1,0],called-pattern=111,target=symbolic-0..2*size,allele-counts=symbolic,dirty-pre-state timeout=900
stubs_h!(read_site_classify_d1_a010_p7, stub_npop_1, 8, classify_case::<1>([0, 1, 0], 7));

// @harness props=C02,C11,C10 tier=quick bounds=populations=1,samples=3,assignment=[0,1,1],called-pattern=011,target=symbolic-0..2*size,allele-counts=symbolic,dirty-pre-state timeout=900
stubs_h!(read_site_classify_d1_a011_p3, stub_npop_1, 8, classify_case::<1>([0, 1, 1], 3));

// @harness props=C02,C11,C10 tier=quick bounds=populations=1,samples=3,assignment=[0,1,1],called-pattern=101,target=symbolic-0..2*size,allele-counts=symbolic,dirty-pre-state timeout=900
stubs_h!(read_site_classify_d1_a011_p5, stub_npop_1, 8, classify_case::<1>([0, 1, 1], 5));

// @harness props=C02,C11,C10 tier=quick bounds=populations=1,samples=3,assignment=[0,1,1],called-pattern=111,target=symbolic-0..2*size,allele-counts=symbolic,dirty-pre-state timeout=900
stubs_h!(read_site_classify_d1_a011_p7, stub_npop_1, 8, classify_case::<1>([0, 1, 1], 7));

// @harness props=C02,C11,C10 tier=thorough bounds=populations=1,samples=3,assignment=[1,0,0],called-pattern=111,target=symbolic-0..2*size,allele-counts=symbolic,dirty-pre-state timeout=900
stubs_h!(read_site_classify_d1_a100_p7, stub_npop_1, 8, classify_case::<1>([1, 0, 0], 7));

// @harness props=C02,C11,C10 tier=thorough bounds=populations=1,samples=3,assignment=[1,0,1],called-pattern=011,target=symbolic-0..2*size,allele-counts=symbolic,dirty-pre-state timeout=900
stubs_h!(read_site_classify_d1_a101_p3, stub_npop_1, 8, classify_case::<1>([1, 0, 1], 3));

// @harness props=C02,C11,C10 tier=thorough bounds=populations=1,samples=3,assignment=[1,0,1],called-pattern=110,target=symbolic-0..2*size,allele-counts=symbolic,dirty-pre-state timeout=900
stubs_h!(read_site_classify_d1_a101_p6, stub_npop_1, 8, classify_case::<1>([1, 0, 1], 6));

// @harness props=C02,C11,C10 tier=thorough bounds=populations=1,samples=3,assignment=[1,0,1],called-pattern=111,target=symbolic-0..2*size,allele-counts=symbolic,dirty-pre-state timeout=900
stubs_h!(read_site_classify_d1_a101_p7, stub_npop_1, 8, classify_case::<1>([1, 0, 1], 7));

// @harness props=C02,C11,C10 tier=thorough bounds=populations=1,samples=3,assignment=[1,1,0],called-pattern=101,target=symbolic-0..2*size,allele-counts=symbolic,dirty-pre-state timeout=900
stubs_h!(read_site_classify_d1_a110_p5, stub_npop_1, 8, classify_case::<1>([1, 1, 0], 5));

// @harness props=C02,C11,C10 tier=thorough bounds=populations=1,samples=3,assignment=[1,1,0],called-pattern=110,target=symbolic-0..2*size,allele-counts=symbolic,dirty-pre-state timeout=900
stubs_h!(read_site_classify_d1_a110_p6, stub_npop_1, 8, classify_case::<1>([1, 1, 0], 6));

// @harness props=C02,C11,C10 tier=thorough bounds=populations=1,samples=3,assignment=[1,1,0],called-pattern=111,target=symbolic-0..2*size,allele-counts=symbolic,dirty-pre-state timeout=900
stubs_h!(read_site_classify_d1_a110_p7, stub_npop_1, 8, classify_case::<1>([1, 1, 0], 7));

// @harness props=C02,C11,C10 tier=quick bounds=populations=1,samples=3,assignment=[1,1,1],called-pattern=001,target=symbolic-0..2*size,allele-counts=symbolic,dirty-pre-state timeout=900
stubs_h!(read_site_classify_d1_a111_p1, stub_npop_1, 8, classify_case::<1>([1, 1, 1], 1));

// @harness props=C02,C11,C10 tier=quick bounds=populations=1,samples=3,assignment=[1,1,1],called-pattern=010,target=symbolic-0..2*size,allele-counts=symbolic,dirty-pre-state timeout=900
stubs_h!(read_site_classify_d1_a111_p2, stub_npop_1, 8, classify_case::<1>([1, 1, 1], 2));

// @harness props=C02,C11,C10 tier=quick bounds=populations=1,samples=3,assignment=[1,1,1],called-pattern=011,target=symbolic-0..2*size,allele-counts=symbolic,dirty-pre-state timeout=900
stubs_h!(read_site_classify_d1_a111_p3, stub_npop_1, 8, classify_case::<1>([1, 1, 1], 3));

// @harness props=C02,C11,C10 tier=quick bounds=populations=1,samples=3,assignment=[1,1,1],called-pattern=100,target=symbolic-0..2*size,allele-counts=symbolic,dirty-pre-state timeout=900
stubs_h!(read_site_classify_d1_a111_p4, stub_npop_1, 8, classify_case::<1>([1, 1, 1], 4));

// @harness props=C02,C11,C10 tier=quick bounds=populations=1,samples=3,assignment=[1,1,1],called-pattern=101,target=symbolic-0..2*size,allele-counts=symbolic,dirty-pre-state timeout=900
stubs_h!(read_site_classify_d1_a111_p5, stub_npop_1, 8, classify_case::<1>([1, 1, 1], 5));

// @harness props=C02,C11,C10 tier=quick bounds=populations=1,samples=3,assignment=[1,1,1],called-pattern=110,target=symbolic-0..2*size,allele-counts=symbolic,dirty-pre-state timeout=900
stubs_h!(read_site_classify_d1_a111_p6, stub_npop_1, 8, classify_case::<1>([1, 1, 1], 6));

// @harness props=C02,C11,C10 tier=quick bounds=populations=1,samples=3,assignment=[1,1,1],called-pattern=111,target=symbolic-0..2*size,allele-counts=symbolic,dirty-pre-state timeout=900
stubs_h!(read_site_classify_d1_a111_p7, stub_npop_1, 8, classify_case::<1>([1, 1, 1], 7));

// @harness props=C02,C11,C10 tier=thorough bounds=populations=2,samples=3,assignment=[0,1,2],called-pattern=011,target=symbolic-0..2*size,allele-counts=symbolic,dirty-pre-state timeout=900
stubs_h!(read_site_classify_d2_a012_p3, stub_npop_2, 8, classify_case::<2>([0, 1, 2], 3));

// @harness props=C02,C11,C10 tier=thorough bounds=populations=2,samples=3,assignment=[0,1,2],called-pattern=101,target=symbolic-0..2*size,allele-counts=symbolic,dirty-pre-state timeout=900
stubs_h!(read_site_classify_d2_a012_p5, stub_npop_2, 8, classify_case::<2>([0, 1, 2], 5));

// @harness props=C02,C11,C10 tier=thorough bounds=populations=2,samples=3,assignment=[0,1,2],called-pattern=111,target=symbolic-0..2*size,allele-counts=symbolic,dirty-pre-state timeout=900
stubs_h!(read_site_classify_d2_a012_p7, stub_npop_2, 8, classify_case::<2>([0, 1, 2], 7));

// @harness props=C02,C11,C10 tier=thorough bounds=populations=2,samples=3,assignment=[0,2,1],called-pattern=011,target=symbolic-0..2*size,allele-counts=symbolic,dirty-pre-state timeout=900
stubs_h!(read_site_classify_d2_a021_p3, stub_npop_2, 8, classify_case::<2>([0, 2, 1], 3));

// @harness props=C02,C11,C10 tier=thorough bounds=populations=2,samples=3,assignment=[0,2,1],called-pattern=101,target=symbolic-0..2*size,allele-counts=symbolic,dirty-pre-state timeout=900
stubs_h!(read_site_classify_d2_a021_p5, stub_npop_2, 8, classify_case::<2>([0, 2, 1], 5));

// @harness props=C02,C11,C10 tier=thorough bounds=populations=2,samples=3,assignment=[0,2,1],called-pattern=111,target=symbolic-0..2*size,allele-counts=symbolic,dirty-pre-state timeout=900
stubs_h!(read_site_classify_d2_a021_p7, stub_npop_2, 8, classify_case::<2>([0, 2, 1], 7));

// @harness props=C02,C11,C10 tier=thorough bounds=populations=2,samples=3,assignment=[1,0,2],called-pattern=011,target=symbolic-0..2*size,allele-counts=symbolic,dirty-pre-state timeout=900
stubs_h!(read_site_classify_d2_a102_p3, stub_npop_2, 8, classify_case::<2>([1, 0, 2], 3));

// @harness props=C02,C11,C10 tier=thorough bounds=populations=2,samples=3,assignment=[1,0,2],called-pattern=110,target=symbolic-0..2*size,allele-counts=symbolic,dirty-pre-state timeout=900
stubs_h!(read_site_classify_d2_a102_p6, stub_npop_2, 8, classify_case::<2>([1, 0, 2], 6));

// @harness props=C02,C11,C10 tier=thorough bounds=populations=2,samples=3,assignment=[1,0,2],called-pattern=111,target=symbolic-0..2*size,allele-counts=symbolic,dirty-pre-state timeout=900
stubs_h!(read_site_classify_d2_a102_p7, stub_npop_2, 8, classify_case::<2>([1, 0, 2], 7));

// @harness props=C02,C11,C10 tier=quick bounds=populations=2,samples=3,assignment=[1,1,2],called-pattern=001,target=symbolic-0..2*size,allele-counts=symbolic,dirty-pre-state timeout=900
stubs_h!(read_site_classify_d2_a112_p1, stub_npop_2, 8, classify_case::<2>([1, 1, 2], 1));

// @harness props=C02,C11,C10 tier=quick bounds=populations=2,samples=3,assignment=[1,1,2],called-pattern=010,target=symbolic-0..2*size,allele-counts=symbolic,dirty-pre-state timeout=900
stubs_h!(read_site_classify_d2_a112_p2, stub_npop_2, 8, classify_case::<2>([1, 1, 2], 2));

// @harness props=C02,C11,C10 tier=quick bounds=populations=2,samples=3,assignment=[1,1,2],called-pattern=011,target=symbolic-0..2*size,allele-counts=symbolic,dirty-pre-state timeout=900
stubs_h!(read_site_classify_d2_a112_p3, stub_npop_2, 8, classify_case::<2>([1, 1, 2], 3));

// @harness props=C02,C11,C10 tier=quick bounds=populations=2,samples=3,assignment=[1,1,2],called-pattern=100,target=symbolic-0..2*size,allele-counts=symbolic,dirty-pre-state timeout=900
stubs_h!(read_site_classify_d2_a112_p4, stub_npop_2, 8, classify_case::<2>([1, 1, 2], 4));

// @harness props=C02,C11,C10 tier=quick bounds=populations=2,samples=3,assignment=[1,1,2],called-pattern=101,target=symbolic-0..2*size,allele-counts=symbolic,dirty-pre-state timeout=900
stubs_h!(read_site_classify_d2_a112_p5, stub_npop_2, 8, classify_case::<2>([1, 1, 2], 5));

// @harness props=C02,C11,C10 tier=quick bounds=populations=2,samples=3,assignment=[1,1,2],called-pattern=110,target=symbolic-0..2*size,allele-counts=symbolic,dirty-pre-state timeout=900
stubs_h!(read_site_classify_d2_a112_p6, stub_npop_2, 8, classify_case::<2>([1, 1, 2], 6));

// @harness props=C02,C11,C10 tier=quick bounds=populations=2,samples=3,assignment=[1,1,2],called-pattern=111,target=symbolic-0..2*size,allele-counts=symbolic,dirty-pre-state timeout=900
stubs_h!(read_site_classify_d2_a112_p7, stub_npop_2, 8, classify_case::<2>([1, 1, 2], 7));

// @harness props=C02,C11,C10 tier=thorough bounds=populations=2,samples=3,assignment=[1,2,0],called-pattern=101,target=symbolic-0..2*size,allele-counts=symbolic,dirty-pre-state timeout=900
stubs_h!(read_site_classify_d2_a120_p5, stub_npop_2, 8, classify_case::<2>([1, 2, 0], 5));

// @harness props=C02,C11,C10 tier=thorough bounds=populations=2,samples=3,assignment=[1,2,0],called-pattern=110,target=symbolic-0..2*size,allele-counts=symbolic,dirty-pre-state timeout=900
stubs_h!(read_site_classify_d2_a120_p6, stub_npop_2, 8, classify_case::<2>([1, 2, 0], 6));

// @harness props=C02,C11,C10 tier=thorough bounds=populations=2,samples=3,assignment=[1,2,0],called-pattern=111,target=symbolic-0..2*size,allele-counts=symbolic,dirty-pre-state timeout=900
stubs_h!(read_site_classify_d2_a120_p7, stub_npop_2, 8, classify_case::<2>([1, 2, 0], 7));

// @harness props=C02,C11,C10 tier=quick bounds=populations=2,samples=3,assignment=[1,2,1],called-pattern=001,target=symbolic-0..2*size,allele-counts=symbolic,dirty-pre-state timeout=900
stubs_h!(read_site_classify_d2_a121_p1, stub_npop_2, 8, classify_case::<2>([1, 2, 1], 1));

// @harness props=C02,C11,C10 tier=quick bounds=populations=2,samples=3,assignment=[1,2,1],called-pattern=010,target=symbolic-0..2*size,allele-counts=symbolic,dirty-pre-state timeout=900
stubs_h!(read_site_classify_d2_a121_p2, stub_npop_2, 8, classify_case::<2>([1, 2, 1], 2));

// @harness props=C02,C11,C10 tier=quick bounds=populations=2,samples=3,assignment=[1,2,1],called-pattern=011,target=symbolic-0..2*size,allele-counts=symbolic,dirty-pre-state timeout=900
stubs_h!(read_site_classify_d2_a121_p3, stub_npop_2, 8, classify_case::<2>([1, 2, 1], 3));

// @harness props=C02,C11,C10 tier=quick bounds=populations=2,samples=3,assignment=[1,2,1],called-pattern=100,target=symbolic-0..2*size,allele-counts=symbolic,dirty-pre-state timeout=900
stubs_h!(read_site_classify_d2_a121_p4, stub_npop_2, 8, classify_case::<2>([1, 2, 1], 4));

// @harness props=C02,C11,C10 tier=quick bounds=populations=2,samples=3,assignment=[1,2,1],called-pattern=101,target=symbolic-0..2*size,allele-counts=symbolic,dirty-pre-state timeout=900
stubs_h!(read_site_classify_d2_a121_p5, stub_npop_2, 8, classify_case::<2>([1, 2, 1], 5));

// @harness props=C02,C11,C10 tier=quick bounds=populations=2,samples=3,assignment=[1,2,1],called-pattern=110,target=symbolic-0..2*size,allele-counts=symbolic,dirty-pre-state timeout=900
stubs_h!(read_site_classify_d2_a121_p6, stub_npop_2, 8, classify_case::<2>([1, 2, 1], 6));

// @harness props=C02,C11,C10 tier=quick bounds=populations=2,samples=3,assignment=[1,2,1],called-pattern=111,target=symbolic-0..2*size,allele-counts=symbolic,dirty-pre-state timeout=900
stubs_h!(read_site_classify_d2_a121_p7, stub_npop_2, 8, classify_case::<2>([1, 2, 1], 7));

// @harness props=C02,C11,C10 tier=thorough bounds=populations=2,samples=3,assignment=[1,2,2],called-pattern=001,target=symbolic-0..2*size,allele-counts=symbolic,dirty-pre-state timeout=900
stubs_h!(read_site_classify_d2_a122_p1, stub_npop_2, 8, classify_case::<2>([1, 2, 2], 1));

// @harness props=C02,C11,C10 tier=thorough bounds=populations=2,samples=3,assignment=[1,2,2],called-pattern=010,target=symbolic-0..2*size,allele-counts=symbolic,dirty-pre-state timeout=900
stubs_h!(read_site_classify_d2_a122_p2, stub_npop_2, 8, classify_case::<2>([1, 2, 2], 2));

// @harness props=C02,C11,C10 tier=thorough bounds=populations=2,samples=3,assignment=[1,2,2],called-pattern=011,target=symbolic-0..2*size,allele-counts=symbolic,dirty-pre-state timeout=900
stubs_h!(read_site_classify_d2_a122_p3, stub_npop_2, 8, classify_case::<2>([1, 2, 2], 3));

// @harness props=C02,C11,C10 tier=thorough bounds=populations=2,samples=3,assignment=[1,2,2],called-pattern=100,target=symbolic-0..2*size,allele-counts=symbolic,dirty-pre-state timeout=900
stubs_h!(read_site_classify_d2_a122_p4, stub_npop_2, 8, classify_case::<2>([1, 2, 2], 4));

// @harness props=C02,C11,C10 tier=thorough bounds=populations=2,samples=3,assignment=[1,2,2],called-pattern=101,target=symbolic-0..2*size,allele-counts=symbolic,dirty-pre-state timeout=900
stubs_h!(read_site_classify_d2_a122_p5, stub_npop_2, 8, classify_case::<2>([1, 2, 2], 5));

// @harness props=C02,C11,C10 tier=thorough bounds=populations=2,samples=3,assignment=[1,2,2],called-pattern=110,target=symbolic-0..2*size,allele-counts=symbolic,dirty-pre-state timeout=900
stubs_h!(read_site_classify_d2_a122_p6, stub_npop_2, 8, classify_case::<2>([1, 2, 2], 6));

// @harness props=C02,C11,C10 tier=thorough bounds=populations=2,samples=3,assignment=[1,2,2],called-pattern=111,target=symbolic-0..2*size,allele-counts=symbolic,dirty-pre-state timeout=900
stubs_h!(read_site_classify_d2_a122_p7, stub_npop_2, 8, classify_case::<2>([1, 2, 2], 7));

// @harness props=C02,C11,C10 tier=quick bounds=populations=2,samples=3,assignment=[2,0,1],called-pattern=011,target=symbolic-0..2*size,allele-counts=symbolic,dirty-pre-state timeout=900
stubs_h!(read_site_classify_d2_a201_p3, stub_npop_2, 8, classify_case::<2>([2, 0, 1], 3));

// @harness props=C02,C11,C10 tier=quick bounds=populations=2,samples=3,assignment=[2,0,1],called-pattern=110,target=symbolic-0..2*size,allele-counts=symbolic,dirty-pre-state timeout=900
stubs_h!(read_site_classify_d2_a201_p6, stub_npop_2, 8, classify_case::<2>([2, 0, 1], 6));

// @harness props=C02,C11,C10 tier=quick bounds=populations=2,samples=3,assignment=[2,0,1],called-pattern=111,target=symbolic-0..2*size,allele-counts=symbolic,dirty-pre-state timeout=900
stubs_h!(read_site_classify_d2_a201_p7, stub_npop_2, 8, classify_case::<2>([2, 0, 1], 7));

// @harness props=C02,C11,C10 tier=thorough bounds=populations=2,samples=3,assignment=[2,1,0],called-pattern=101,target=symbolic-0..2*size,allele-counts=symbolic,dirty-pre-state timeout=900
stubs_h!(read_site_classify_d2_a210_p5, stub_npop_2, 8, classify_case::<2>([2, 1, 0], 5));

// @harness props=C02,C11,C10 tier=thorough bounds=populations=2,samples=3,assignment=[2,1,0],called-pattern=110,target=symbolic-0..2*size,allele-counts=symbolic,dirty-pre-state timeout=900
stubs_h!(read_site_classify_d2_a210_p6, stub_npop_2, 8, classify_case::<2>([2, 1, 0], 6));

// @harness props=C02,C11,C10 tier=thorough bounds=populations=2,samples=3,assignment=[2,1,0],called-pattern=111,target=symbolic-0..2*size,allele-counts=symbolic,dirty-pre-state timeout=900
stubs_h!(read_site_classify_d2_a210_p7, stub_npop_2, 8, classify_case::<2>([2, 1, 0], 7));

// @harness props=C02,C11,C10 tier=thorough bounds=populations=2,samples=3,assignment=[2,1,1],called-pattern=001,target=symbolic-0..2*size,allele-counts=symbolic,dirty-pre-state timeout=900
stubs_h!(read_site_classify_d2_a211_p1, stub_npop_2, 8, classify_case::<2>([2, 1, 1], 1));

// @harness props=C02,C11,C10 tier=thorough bounds=populations=2,samples=3,assignment=[2,1,1],called-pattern=010,target=symbolic-0..2*size,allele-counts=symbolic,dirty-pre-state timeout=900
stubs_h!(read_site_classify_d2_a211_p2, stub_npop_2, 8, classify_case::<2>([2, 1, 1], 2));

// @harness props=C02,C11,C10 tier=thorough bounds=populations=2,samples=3,assignment=[2,1,1],called-pattern=011,target=symbolic-0..2*size,allele-counts=symbolic,dirty-pre-state timeout=900
stubs_h!(read_site_classify_d2_a211_p3, stub_npop_2, 8, classify_case::<2>([2, 1, 1], 3));

// @harness props=C02,C11,C10 tier=thorough bounds=populations=2,samples=3,assignment=[2,1,1],called-pattern=100,target=symbolic-0..2*size,allele-counts=symbolic,dirty-pre-state timeout=900
stubs_h!(read_site_classify_d2_a211_p4, stub_npop_2, 8, classify_case::<2>([2, 1, 1], 4));

// @harness props=C02,C11,C10 tier=thorough bounds=populations=2,samples=3,assignment=[2,1,1],called-pattern=101,target=symbolic-0..2*size,allele-counts=symbolic,dirty-pre-state timeout=900
stubs_h!(read_site_classify_d2_a211_p5, stub_npop_2, 8, classify_case::<2>([2, 1, 1], 5));

// @harness props=C02,C11,C10 tier=thorough bounds=populations=2,samples=3,assignment=[2,1,1],called-pattern=110,target=symbolic-0..2*size,allele-counts=symbolic,dirty-pre-state timeout=900
stubs_h!(read_site_classify_d2_a211_p6, stub_npop_2, 8, classify_case::<2>([2, 1, 1], 6));

// @harness props=C02,C11,C10 tier=thorough bounds=populations=2,samples=3,assignment=[2,1,1],called-pattern=111,target=symbolic-0..2*size,allele-counts=symbolic,dirty-pre-state timeout=900
stubs_h!(read_site_classify_d2_a211_p7, stub_npop_2, 8, classify_case::<2>([2, 1, 1], 7));

// @harness props=C02,C11,C10 tier=thorough bounds=populations=2,samples=3,assignment=[2,1,2],called-pattern=001,target=symbolic-0..2*size,allele-counts=symbolic,dirty-pre-state timeout=900
stubs_h!(read_site_classify_d2_a212_p1, stub_npop_2, 8, classify_case::<2>([2, 1, 2], 1));

// @harness props=C02,C11,C10 tier=thorough bounds=populations=2,samples=3,assignment=[2,1,2],called-pattern=010,target=symbolic-0..2*size,allele-counts=symbolic,dirty-pre-state timeout=900
stubs_h!(read_site_classify_d2_a212_p2, stub_npop_2, 8, classify_case::<2>([2, 1, 2], 2));

// @harness props=C02,C11,C10 tier=thorough bounds=populations=2,samples=3,assignment=[2,1,2],called-pattern=011,target=symbolic-0..2*size,allele-counts=symbolic,dirty-pre-state timeout=900
stubs_h!(read_site_classify_d2_a212_p3, stub_npop_2, 8, classify_case::<2>([2, 1, 2], 3));

// @harness props=C02,C11,C10 tier=thorough bounds=populations=2,samples=3,assignment=[2,1,2],called-pattern=100,target=symbolic-0..2*size,allele-counts=symbolic,dirty-pre-state timeout=900
stubs_h!(read_site_classify_d2_a212_p4, stub_npop_2, 8, classify_case::<2>([2, 1, 2], 4));

// @harness props=C02,C11,C10 tier=thorough bounds=populations=2,samples=3,assignment=[2,1,2],called-pattern=101,target=symbolic-0..2*size,allele-counts=symbolic,dirty-pre-state timeout=900
stubs_h!(read_site_classify_d2_a212_p5, stub_npop_2, 8, classify_case::<2>([2, 1, 2], 5));

// @harness props=C02,C11,C10 tier=thorough bounds=populations=2,samples=3,assignment=[2,1,2],called-pattern=110,target=symbolic-0..2*size,allele-counts=symbolic,dirty-pre-state timeout=900
stubs_h!(read_site_classify_d2_a212_p6, stub_npop_2, 8, classify_case::<2>([2, 1, 2], 6));

// @harness props=C02,C11,C10 tier=thorough bounds=populations=2,samples=3,assignment=[2,1,2],called-pattern=111,target=symbolic-0..2*size,allele-counts=symbolic,dirty-pre-state timeout=900
stubs_h!(read_site_classify_d2_a212_p7, stub_npop_2, 8, classify_case::<2>([2, 1, 2], 7));

// @harness props=C02,C11,C10 tier=thorough bounds=populations=2,samples=3,assignment=[2,2,1],called-pattern=001,target=symbolic-0..2*size,allele-counts=symbolic,dirty-pre-state timeout=900
stubs_h!(read_site_classify_d2_a221_p1, stub_npop_2, 8, classify_case::<2>([2, 2, 1], 1));

// @harness props=C02,C11,C10 tier=thorough bounds=populations=2,samples=3,assignment=[2,2,1],called-pattern=010,target=symbolic-0..2*size,allele-counts=symbolic,dirty-pre-state timeout=900
stubs_h!(read_site_classify_d2_a221_p2, stub_npop_2, 8, classify_case::<2>([2, 2, 1], 2));

// @harness props=C02,C11,C10 tier=thorough bounds=populations=2,samples=3,assignment=[2,2,1],called-pattern=011,target=symbolic-0..2*size,allele-counts=symbolic,dirty-pre-state timeout=900
stubs_h!(read_site_classify_d2_a221_p3, stub_npop_2, 8, classify_case::<2>([2, 2, 1], 3));

// @harness props=C02,C11,C10 tier=thorough bounds=populations=2,samples=3,assignment=[2,2,1],called-pattern=100,target=symbolic-0..2*size,allele-counts=symbolic,dirty-pre-state timeout=900
stubs_h!(read_site_classify_d2_a221_p4, stub_npop_2, 8, classify_case::<2>([2, 2, 1], 4));

// @harness props=C02,C11,C10 tier=thorough bounds=populations=2,samples=3,assignment=[2,2,1],called-pattern=101,target=symbolic-0..2*size,allele-counts=symbolic,dirty-pre-state timeout=900
stubs_h!(read_site_classify_d2_a221_p5, stub_npop_2, 8, classify_case::<2>([2, 2, 1], 5));

// @harness props=C02,C11,C10 tier=thorough bounds=populations=2,samples=3,assignment=[2,2,1],called-pattern=110,target=symbolic-0..2*size,allele-counts=symbolic,dirty-pre-state timeout=900
stubs_h!(read_site_classify_d2_a221_p6, stub_npop_2, 8, classify_case::<2>([2, 2, 1], 6));

// @harness props=C02,C11,C10 tier=thorough bounds=populations=2,samples=3,assignment=[2,2,1],called-pattern=111,target=symbolic-0..2*size,allele-counts=symbolic,dirty-pre-state timeout=900
stubs_h!(read_site_classify_d2_a221_p7, stub_npop_2, 8, classify_case::<2>([2, 2, 1], 7));

// @harness props=C02,C11,C10 tier=quick bounds=populations=3,samples=3,assignment=[1,2,3],called-pattern=001,target=symbolic-0..2*size,allele-counts=symbolic,dirty-pre-state timeout=900
stubs_h!(read_site_classify_d3_a123_p1, stub_npop_3, 8, classify_case::<3>([1, 2, 3], 1));

// @harness props=C02,C11,C10 tier=quick bounds=populations=3,samples=3,assignment=[1,2,3],called-pattern=010,target=symbolic-0..2*size,allele-counts=symbolic,dirty-pre-state timeout=900
stubs_h!(read_site_classify_d3_a123_p2, stub_npop_3, 8, classify_case::<3>([1, 2, 3], 2));

// @harness props=C02,C11,C10 tier=quick bounds=populations=3,samples=3,assignment=[1,2,3],called-pattern=011,target=symbolic-0..2*size,allele-counts=symbolic,dirty-pre-state timeout=900
stubs_h!(read_site_classify_d3_a123_p3, stub_npop_3, 8, classify_case::<3>([1, 2, 3], 3));

// @harness props=C02,C11,C10 tier=quick bounds=populations=3,samples=3,assignment=[1,2,3],called-pattern=100,target=symbolic-0..2*size,allele-counts=symbolic,dirty-pre-state timeout=900
stubs_h!(read_site_classify_d3_a123_p4, stub_npop_3, 8, classify_case::<3>([1, 2, 3], 4));

// @harness props=C02,C11,C10 tier=quick bounds=populations=3,samples=3,assignment=[1,2,3],called-pattern=101,target=symbolic-0..2*size,allele-counts=symbolic,dirty-pre-state timeout=900
stubs_h!(read_site_classify_d3_a123_p5, stub_npop_3, 8, classify_case::<3>([1, 2, 3], 5));

// @harness props=C02,C11,C10 tier=quick bounds=populations=3,samples=3,assignment=[1,2,3],called-pattern=110,target=symbolic-0..2*size,allele-counts=symbolic,dirty-pre-state timeout=900
stubs_h!(read_site_classify_d3_a123_p6, stub_npop_3, 8, classify_case::<3>([1, 2, 3], 6));

// @harness props=C02,C11,C10 tier=quick bounds=populations=3,samples=3,assignment=[1,2,3],called-pattern=111,target=symbolic-0..2*size,allele-counts=symbolic,dirty-pre-state timeout=900
stubs_h!(read_site_classify_d3_a123_p7, stub_npop_3, 8, classify_case::<3>([1, 2, 3], 7));

// @harness props=C02,C11,C10 tier=thorough bounds=populations=3,samples=3,assignment=[1,3,2],called-pattern=001,target=symbolic-0..2*size,allele-counts=symbolic,dirty-pre-state timeout=900
stubs_h!(read_site_classify_d3_a132_p1, stub_npop_3, 8, classify_case::<3>([1, 3, 2], 1));

// @harness props=C02,C11,C10 tier=thorough bounds=populations=3,samples=3,assignment=[1,3,2],called-pattern=010,target=symbolic-0..2*size,allele-counts=symbolic,dirty-pre-state timeout=900
stubs_h!(read_site_classify_d3_a132_p2, stub_npop_3, 8, classify_case::<3>([1, 3, 2], 2));

// @harness props=C02,C11,C10 tier=thorough bounds=populations=3,samples=3,assignment=[1,3,2],called-pattern=011,target=symbolic-0..2*size,allele-counts=symbolic,dirty-pre-state timeout=900
stubs_h!(read_site_classify_d3_a132_p3, stub_npop_3, 8, classify_case::<3>([1, 3, 2], 3));

// @harness props=C02,C11,C10 tier=thorough bounds=populations=3,samples=3,assignment=[1,3,2],called-pattern=100,target=symbolic-0..2*size,allele-counts=symbolic,dirty-pre-state timeout=900
stubs_h!(read_site_classify_d3_a132_p4, stub_npop_3, 8, classify_case::<3>([1, 3, 2], 4));

// @harness props=C02,C11,C10 tier=thorough bounds=populations=3,samples=3,assignment=[1,3,2],called-pattern=101,target=symbolic-0..2*size,allele-counts=symbolic,dirty-pre-state timeout=900
stubs_h!(read_site_classify_d3_a132_p5, stub_npop_3, 8, classify_case::<3>([1, 3, 2], 5));

// @harness props=C02,C11,C10 tier=thorough bounds=populations=3,samples=3,assignment=[1,3,2],called-pattern=110,target=symbolic-0..2*size,allele-counts=symbolic,dirty-pre-state timeout=900
stubs_h!(read_site_classify_d3_a132_p6, stub_npop_3, 8, classify_case::<3>([1, 3, 2], 6));

// @harness props=C02,C11,C10 tier=thorough bounds=populations=3,samples=3,assignment=[1,3,2],called-pattern=111,target=symbolic-0..2*size,allele-counts=symbolic,dirty-pre-state timeout=900
stubs_h!(read_site_classify_d3_a132_p7, stub_npop_3, 8, classify_case::<3>([1, 3, 2], 7));

// @harness props=C02,C11,C10 tier=thorough bounds=populations=3,samples=3,assignment=[2,1,3],called-pattern=001,target=symbolic-0..2*size,allele-counts=symbolic,dirty-pre-state timeout=900
stubs_h!(read_site_classify_d3_a213_p1, stub_npop_3, 8, classify_case::<3>([2, 1, 3], 1));

// @harness props=C02,C11,C10 tier=thorough bounds=populations=3,samples=3,assignment=[2,1,3],called-pattern=010,target=symbolic-0..2*size,allele-counts=symbolic,dirty-pre-state timeout=900
stubs_h!(read_site_classify_d3_a213_p2, stub_npop_3, 8, classify_case::<3>([2, 1, 3], 2));

// @harness props=C02,C11,C10 tier=thorough bounds=populations=3,samples=3,assignment=[2,1,3],called-pattern=011,target=symbolic-0..2*size,allele-counts=symbolic,dirty-pre-state timeout=900
stubs_h!(read_site_classify_d3_a213_p3, stub_npop_3, 8, classify_case::<3>([2, 1, 3], 3));

// @harness props=C02,C11,C10 tier=thorough bounds=populations=3,samples=3,assignment=[2,1,3],called-pattern=100,target=symbolic-0..2*size,allele-counts=symbolic,dirty-pre-state timeout=900
stubs_h!(read_site_classify_d3_a213_p4, stub_npop_3, 8, classify_case::<3>([2, 1, 3], 4));

// @harness props=C02,C11,C10 tier=thorough bounds=populations=3,samples=3,assignment=[2,1,3],called-pattern=101,target=symbolic-0..2*size,allele-counts=symbolic,dirty-pre-state timeout=900
stubs_h!(read_site_classify_d3_a213_p5, stub_npop_3, 8, classify_case::<3>([2, 1, 3], 5));

// @harness props=C02,C11,C10 tier=thorough bounds=populations=3,samples=3,assignment=[2,1,3],called-pattern=110,target=symbolic-0..2*size,allele-counts=symbolic,dirty-pre-state timeout=900
stubs_h!(read_site_classify_d3_a213_p6, stub_npop_3, 8, classify_case::<3>([2, 1, 3], 6));

// @harness props=C02,C11,C10 tier=thorough bounds=populations=3,samples=3,assignment=[2,1,3],called-pattern=111,target=symbolic-0..2*size,allele-counts=symbolic,dirty-pre-state timeout=900
stubs_h!(read_site_classify_d3_a213_p7, stub_npop_3, 8, classify_case::<3>([2, 1, 3], 7));

// @harness props=C02,C11,C10 tier=thorough bounds=populations=3,samples=3,assignment=[2,3,1],called-pattern=001,target=symbolic-0..2*size,allele-counts=symbolic,dirty-pre-state timeout=900
stubs_h!(read_site_classify_d3_a231_p1, stub_npop_3, 8, classify_case::<3>([2, 3, 1], 1));

// @harness props=C02,C11,C10 tier=thorough bounds=populations=3,samples=3,assignment=[2,3,1],called-pattern=010,target=symbolic-0..2*size,allele-counts=symbolic,dirty-pre-state timeout=900
stubs_h!(read_site_classify_d3_a231_p2, stub_npop_3, 8, classify_case::<3>([2, 3, 1], 2));

// @harness props=C02,C11,C10 tier=thorough bounds=populations=3,samples=3,assignment=[2,3,1],called-pattern=011,target=symbolic-0..2*size,allele-counts=symbolic,dirty-pre-state timeout=900
stubs_h!(read_site_classify_d3_a231_p3, stub_npop_3, 8, classify_case::<3>([2, 3, 1], 3));

// @harness props=C02,C11,C10 tier=thorough bounds=populations=3,samples=3,assignment=[2,3,1],called-pattern=100,target=symbolic-0..2*size,allele-counts=symbolic,dirty-pre-state timeout=900
stubs_h!(read_site_classify_d3_a231_p4, stub_npop_3, 8, classify_case::<3>([2, 3, 1], 4));

// @harness props=C02,C11,C10 tier=thorough bounds=populations=3,samples=3,assignment=[2,3,1],called-pattern=101,target=symbolic-0..2*size,allele-counts=symbolic,dirty-pre-state timeout=900
stubs_h!(read_site_classify_d3_a231_p5, stub_npop_3, 8, classify_case::<3>([2, 3, 1], 5));

// @harness props=C02,C11,C10 tier=thorough bounds=populations=3,samples=3,assignment=[2,3,1],called-pattern=110,target=symbolic-0..2*size,allele-counts=symbolic,dirty-pre-state timeout=900
stubs_h!(read_site_classify_d3_a231_p6, stub_npop_3, 8, classify_case::<3>([2, 3, 1], 6));

// @harness props=C02,C11,C10 tier=thorough bounds=populations=3,samples=3,assignment=[2,3,1],called-pattern=111,target=symbolic-0..2*size,allele-counts=symbolic,dirty-pre-state timeout=900
stubs_h!(read_site_classify_d3_a231_p7, stub_npop_3, 8, classify_case::<3>([2, 3, 1], 7));

// @harness props=C02,C11,C10 tier=thorough bounds=populations=3,samples=3,assignment=[3,1,2],called-pattern=001,target=symbolic-0..2*size,allele-counts=symbolic,dirty-pre-state timeout=900
stubs_h!(read_site_classify_d3_a312_p1, stub_npop_3, 8, classify_case::<3>([3, 1, 2], 1));

// @harness props=C02,C11,C10 tier=thorough bounds=populations=3,samples=3,assignment=[3,1,2],called-pattern=010,target=symbolic-0..2*size,allele-counts=symbolic,dirty-pre-state timeout=900
stubs_h!(read_site_classify_d3_a312_p2, stub_npop_3, 8, classify_case::<3>([3, 1, 2], 2));

// @harness props=C02,C11,C10 tier=thorough bounds=populations=3,samples=3,assignment=[3,1,2],called-pattern=011,target=symbolic-0..2*size,allele-counts=symbolic,dirty-pre-state timeout=900
stubs_h!(read_site_classify_d3_a312_p3, stub_npop_3, 8, classify_case::<3>([3, 1, 2], 3));

// @harness props=C02,C11,C10 tier=thorough bounds=populations=3,samples=3,assignment=[3,1,2],called-pattern=100,target=symbolic-0..2*size,allele-counts=symbolic,dirty-pre-state timeout=900
stubs_h!(read_site_classify_d3_a312_p4, stub_npop_3, 8, classify_case::<3>([3, 1, 2], 4));

// @harness props=C02,C11,C10 tier=thorough bounds=populations=3,samples=3,assignment=[3,1,2],called-pattern=101,target=symbolic-0..2*size,allele-counts=symbolic,dirty-pre-state timeout=900
stubs_h!(read_site_classify_d3_a312_p5, stub_npop_3, 8, classify_case::<3>([3, 1, 2], 5));

// @harness props=C02,C11,C10 tier=thorough bounds=populations=3,samples=3,assignment=[3,1,2],called-pattern=110,target=symbolic-0..2*size,allele-counts=symbolic,dirty-pre-state timeout=900
stubs_h!(read_site_classify_d3_a312_p6, stub_npop_3, 8, classify_case::<3>([3, 1, 2], 6));

// @harness props=C02,C11,C10 tier=thorough bounds=populations=3,samples=3,assignment=[3,1,2],called-pattern=111,target=symbolic-0..2*size,allele-counts=symbolic,dirty-pre-state timeout=900
stubs_h!(read_site_classify_d3_a312_p7, stub_npop_3, 8, classify_case::<3>([3, 1, 2], 7));

// @harness props=C02,C11,C10 tier=thorough bounds=populations=3,samples=3,assignment=[3,2,1],called-pattern=001,target=symbolic-0..2*size,allele-counts=symbolic,dirty-pre-state timeout=900
stubs_h!(read_site_classify_d3_a321_p1, stub_npop_3, 8, classify_case::<3>([3, 2, 1], 1));

// @harness props=C02,C11,C10 tier=thorough bounds=populations=3,samples=3,assignment=[3,2,1],called-pattern=010,target=symbolic-0..2*size,allele-counts=symbolic,dirty-pre-state timeout=900
stubs_h!(read_site_classify_d3_a321_p2, stub_npop_3, 8, classify_case::<3>([3, 2, 1], 2));

// @harness props=C02,C11,C10 tier=thorough bounds=populations=3,samples=3,assignment=[3,2,1],called-pattern=011,target=symbolic-0..2*size,allele-counts=symbolic,dirty-pre-state timeout=900
stubs_h!(read_site_classify_d3_a321_p3, stub_npop_3, 8, classify_case::<3>([3, 2, 1], 3));

// @harness props=C02,C11,C10 tier=thorough bounds=populations=3,samples=3,assignment=[3,2,1],called-pattern=100,target=symbolic-0..2*size,allele-counts=symbolic,dirty-pre-state timeout=900
stubs_h!(read_site_classify_d3_a321_p4, stub_npop_3, 8, classify_case::<3>([3, 2, 1], 4));

// @harness props=C02,C11,C10 tier=thorough bounds=populations=3,samples=3,assignment=[3,2,1],called-pattern=101,target=symbolic-0..2*size,allele-counts=symbolic,dirty-pre-state timeout=900
stubs_h!(read_site_classify_d3_a321_p5, stub_npop_3, 8, classify_case::<3>([3, 2, 1], 5));

// @harness props=C02,C11,C10 tier=thorough bounds=populations=3,samples=3,assignment=[3,2,1],called-pattern=110,target=symbolic-0..2*size,allele-counts=symbolic,dirty-pre-state timeout=900
stubs_h!(read_site_classify_d3_a321_p6, stub_npop_3, 8, classify_case::<3>([3, 2, 1], 6));

// @harness props=C02,C11,C10 tier=thorough bounds=populations=3,samples=3,assignment=[3,2,1],called-pattern=111,target=symbolic-0..2*size,allele-counts=symbolic,dirty-pre-state timeout=900
stubs_h!(read_site_classify_d3_a321_p7, stub_npop_3, 8, classify_case::<3>([3, 2, 1], 7));

//@@END SITE_CASES@@



/// genotype results with a CONCRETE called/skipped pattern (bit i of `pattern` = sample i called);
/// the allele counts of the called samples and the skip reasons stay symbolic.
fn gts_with_pattern(pattern: usize) -> [genotype::Result; NS] {
    let mut g = [genotype::Result::Genotype(Genotype::Zero); NS];
    let mut i = 0;
    while i < NS {
        g[i] = if (pattern >> i) & 1 == 1 {
            match choice(3) {
                0 => genotype::Result::Genotype(Genotype::Zero),
                1 => genotype::Result::Genotype(Genotype::One),
                _ => genotype::Result::Genotype(Genotype::Two),
            }
        } else if pattern == 0 || kani::any() {
            // (all three skipped with symbolic reasons runs CBMC out of memory: reasons concrete there)
            genotype::Result::Skipped(Skipped::Missing)
        } else {
            genotype::Result::Skipped(Skipped::Multiallelic)
        };
        i += 1;
    }
    g
}

