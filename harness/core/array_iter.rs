// Child module of crate::array::iter (AxisIter / IndicesIter private fields are visible).
// @inject crate=sfs-core file=core/src/array/iter.rs mod=kv_array_iter
#![allow(unused_imports)]
use super::*;

#[path = "../util.rs"]
mod util;
use util::*;

/// One inductive step of AxisIter::next from the state "j views already yielded".
fn axis_iter_step<const R: usize, const N: usize>(shape: [usize; R]) {
    let d: [u8; N] = kani::any();
    let arr: Array<u8> = Array::new(d.to_vec(), shape.to_vec()).unwrap();
    let axis = choice(R);
    let n = shape[axis];
    let j: usize = kani::any();
    kani::assume(j <= n);
    let mut it = AxisIter {
        array: &arr,
        axis: Axis(axis),
        index: j,
    };
    if j == 0 {
        // the fresh state built by the public constructor is this state
        let fresh = arr.iter_axis(Axis(axis));
        assert!(fresh.index == 0 && fresh.axis == Axis(axis) && core::ptr::eq(fresh.array, &arr));
    }
    assert!(it.len() == n - j);
    let got = it.next();
    if j < n {
        let exp = arr.get_axis(Axis(axis), j).unwrap();
        match got {
            Some(v) => {
                // same view: same first element, same remaining rank
                assert!(v.dimensions() == R - 1);
                let a = v.iter().next();
                let b = exp.iter().next();
                assert!(match (a, b) {
                    (Some(a), Some(b)) => core::ptr::eq(a, b),
                    _ => false,
                });
            }
            None => assert!(false),
        }
        assert!(it.index == j + 1, "INV: AxisIter.index counts yielded views");
        assert!(it.len() == n - j - 1);
        kani::cover!(j > 0, "not the first view");
    } else {
        assert!(got.is_none());
        assert!(it.len() == 0);
        assert!(it.next().is_none());
        assert!(it.next().is_none());
        assert!(it.len() == 0);
        kani::cover!(true, "exhausted");
    }
    core::mem::forget(arr);
}

macro_rules! axis_iter_h {
    ($name:ident, $r:literal, $n:literal, $shape:expr, $unw:literal) => {
        #[kani::proof]
        #[kani::unwind($unw)]
        fn $name() {
            axis_iter_step::<$r, $n>($shape)
        }
    };
}

// @harness props=C19 tier=quick bounds=shape=[3],all-axes,all-states
axis_iter_h!(axis_iter_step_3, 1, 3, [3], 6);

// @harness props=C19 tier=quick bounds=shape=[2,3],all-axes,all-states
axis_iter_h!(axis_iter_step_2x3, 2, 6, [2, 3], 9);

// @harness props=C19 tier=quick bounds=shape=[2,3,2],all-axes,all-states
axis_iter_h!(axis_iter_step_2x3x2, 3, 12, [2, 3, 2], 15);

// @harness props=C19 tier=thorough bounds=shape=[1,2,2,2],all-axes,all-states
axis_iter_h!(axis_iter_step_1x2x2x2, 4, 8, [1, 2, 2, 2], 11);

/// One inductive step of IndicesIter::next from "k indices already yielded", symbolic shape.
fn indices_iter_step<const R: usize>(hi: usize) {
    let n: [usize; R] = kani::any();
    let mut j = 0;
    while j < R {
        kani::assume(n[j] >= 1 && n[j] <= hi);
        j += 1;
    }
    let shape = Shape(n.to_vec());
    let total = product(&n);
    let k: usize = kani::any();
    kani::assume(k <= total);
    let fresh = IndicesIter::from_shape(&shape);
    assert!(fresh.index == 0 && fresh.total == total);
    let mut it = IndicesIter {
        shape: &shape,
        index: k,
        total,
    };
    assert!(it.len() == total - k);
    let got = it.next();
    if k < total {
        let exp = unrank(&n, k);
        match got {
            Some(v) => {
                assert!(v.len() == R);
                let mut j = 0;
                while j < R {
                    assert!(v[j] == exp[j]);
                    j += 1;
                }
                core::mem::forget(v);
            }
            None => assert!(false),
        }
        assert!(it.index == k + 1 && it.total == total, "INV: IndicesIter.index counts yielded items");
        assert!(it.len() == total - k - 1);
        kani::cover!(k > 0, "not the first");
    } else {
        assert!(got.is_none());
        assert!(it.len() == 0);
        assert!(it.next().is_none());
        assert!(it.next().is_none());
        assert!(it.len() == 0);
        kani::cover!(true, "exhausted");
    }
}

// @harness props=C19 tier=quick bounds=rank=1,lengths=1..6,all-states
#[kani::proof]
#[kani::unwind(4)]
fn indices_iter_step_rank1() {
    indices_iter_step::<1>(6)
}

// @harness props=C19 tier=quick bounds=rank=2,lengths=1..5,all-states
#[kani::proof]
#[kani::unwind(5)]
fn indices_iter_step_rank2() {
    indices_iter_step::<2>(5)
}

// @harness props=C19 tier=quick bounds=rank=3,lengths=1..4,all-states
#[kani::proof]
#[kani::unwind(6)]
fn indices_iter_step_rank3() {
    indices_iter_step::<3>(4)
}

// @harness props=C19 tier=thorough bounds=rank=4,lengths=1..3,all-states timeout=1800
#[kani::proof]
#[kani::unwind(7)]
fn indices_iter_step_rank4() {
    indices_iter_step::<4>(3)
}

// @harness props=C19 tier=thorough bounds=rank=5,lengths=1..3,all-states timeout=3000
#[kani::proof]
#[kani::unwind(8)]
fn indices_iter_step_rank5() {
    indices_iter_step::<5>(3)
}
