// Child module of crate::spectrum::io.
// @inject crate=sfs-core file=core/src/spectrum/io.rs mod=kv_spectrum_io
#![allow(unused_imports)]
use super::*;

// @harness props=C07,C17 tier=quick bounds=every-byte-string-of-length-0..8
#[kani::proof]
#[kani::unwind(10)]
fn format_detect_any_prefix() {
    let bytes: [u8; 8] = kani::any();
    let len: usize = kani::any();
    kani::assume(len <= 8);
    // never a panic, for inputs shorter than the magic as well (empty stdin to `sfs view`)
    let r = Format::detect(&bytes[..len]);
    let is_npy = len >= 6 && bytes[0] == 0x93 && bytes[1] == b'N' && bytes[2] == b'U' && bytes[3] == b'M' && bytes[4] == b'P' && bytes[5] == b'Y';
    let is_txt = len >= 6 && bytes[0] == b'#' && bytes[1] == b'S' && bytes[2] == b'H' && bytes[3] == b'A' && bytes[4] == b'P' && bytes[5] == b'E';
    if is_npy {
        assert!(r == Some(Format::Npy));
    } else if is_txt {
        assert!(r == Some(Format::Text));
    } else {
        assert!(r.is_none());
    }
    kani::cover!(is_npy, "npy magic");
    kani::cover!(is_txt, "text header");
    kani::cover!(len < 6, "shorter than the magic");
}
