// Child module of crate::spectrum::project (sees ProjectIter, PartialProjection.to_buf, ...).
// @inject crate=sfs-core file=core/src/spectrum/project.rs mod=kv_project
#![allow(unused_imports)]
use super::*;

#[path = "../util.rs"]
mod util;
use util::*;

/// pure stand-in for the hypergeometric pmf: small exact values, sensitive to each argument
fn h_stub(size: u64, successes: u64, draws: u64, observed: u64) -> f64 {
    ((size + 2 * successes + 3 * draws + 4 * observed) % 5) as f64
}
#[cfg(not(kv_replay))]
fn h_ref(size: usize, successes: usize, draws: usize, observed: usize) -> f64 {
    ((size + 2 * successes + 3 * draws + 4 * observed) % 5) as f64
}
/// native replay: no stub is applied, so the reference is the exact hypergeometric probability
#[cfg(kv_replay)]
fn h_ref(size: usize, successes: usize, draws: usize, observed: usize) -> f64 {
    fn c(n: usize, k: usize) -> u128 {
        if k > n {
            return 0;
        }
        let mut r: u128 = 1;
        for i in 0..k {
            r = r * (n - i) as u128 / (i + 1) as u128;
        }
        r
    }
    if observed > draws || successes > size || draws > size {
        return 0.0;
    }
    (c(successes, observed) * c(size - successes, draws - observed)) as f64 / c(size, draws) as f64
}
#[cfg(not(kv_replay))]
fn same(a: f64, b: f64) -> bool {
    a == b
}
#[cfg(kv_replay)]
fn same(a: f64, b: f64) -> bool {
    close(a, b)
}

fn vec_of<const D: usize>(m: &[usize; D]) -> Vec<usize> {
    let mut v = Vec::with_capacity(D);
    let mut p = 0;
    while p < D {
        v.push(m[p]);
        p += 1;
    }
    v
}

/// One inductive step of ProjectIter::next from the state "k values already yielded":
/// `to` = unrank(k-1) within shape (m_j+1) (fresh: all zero, index 0).  Everything symbolic:
/// source sizes n_j <= hi_n, source counts, targets m_j <= hi_m, k.
fn project_iter_step<const D: usize>(hi_n: usize, hi_m: usize) {
    let n: [usize; D] = kani::any();
    let m: [usize; D] = kani::any();
    let from: [usize; D] = kani::any();
    let mut mshape = [0usize; D];
    let mut j = 0;
    while j < D {
        kani::assume(n[j] <= hi_n && m[j] <= hi_m && m[j] <= n[j] && from[j] <= n[j]);
        mshape[j] = m[j] + 1;
        j += 1;
    }
    let total = product(&mshape);
    let k: usize = kani::any();
    kani::assume(k <= total);
    let project_from = Count(vec_of(&n));
    let project_to = Count(vec_of(&m));
    let from_c = Count(vec_of(&from));
    let mut to = Count(vec_of(&if k == 0 { [0usize; D] } else { unrank(&mshape, k - 1) }));
    let mut it = ProjectIter {
        project_from: &project_from,
        project_to: &project_to,
        from: &from_c,
        to: &mut to,
        index: k,
    };
    let got = it.next();
    if k < total {
        let t = unrank(&mshape, k);
        let mut w = 1.0f64;
        let mut j = 0;
        while j < D {
            w *= h_ref(n[j], from[j], m[j], t[j]);
            j += 1;
        }
        match got {
            Some(v) => assert!(same(v, w)),
            None => assert!(false),
        }
        let mut j = 0;
        while j < D {
            assert!(it.to[j] == t[j], "INV: ProjectIter.to = unrank(index-1)");
            j += 1;
        }
        assert!(it.index == k + 1, "INV: ProjectIter.index counts yielded values");
        kani::cover!(D < 2 || (k > 0 && t[D - 1] == 0), "carry (two or more axes)");
        kani::cover!(k == 0, "fresh");
    } else {
        // after exactly Π (m_j + 1) values the iterator ends
        assert!(got.is_none());
        kani::cover!(true, "exhausted");
    }
}

// @harness props=C02,C03,C11 tier=quick group=f64 bounds=axes=1,source<=6,target<=4,all-states,pmf=table-stub
#[kani::proof]
#[kani::unwind(5)]
#[kani::stub(crate::utils::hypergeometric_pmf, h_stub)]
fn project_iter_step_d1() {
    project_iter_step::<1>(6, 4)
}

// @harness props=C02,C03,C11 tier=quick group=f64 bounds=axes=2,source<=5,target<=3,all-states,pmf=table-stub timeout=900
#[kani::proof]
#[kani::unwind(6)]
#[kani::stub(crate::utils::hypergeometric_pmf, h_stub)]
fn project_iter_step_d2() {
    project_iter_step::<2>(5, 3)
}

// @harness props=C02,C03,C11 tier=quick group=f64 bounds=axes=3,source<=4,target<=2,all-states,pmf=table-stub timeout=1200
#[kani::proof]
#[kani::unwind(7)]
#[kani::stub(crate::utils::hypergeometric_pmf, h_stub)]
fn project_iter_step_d3() {
    project_iter_step::<3>(4, 2)
}

// @harness props=C02,C03 tier=thorough group=f64 bounds=axes=4,source<=3,target<=2,all-states,pmf=table-stub timeout=2400
#[kani::proof]
#[kani::unwind(8)]
#[kani::stub(crate::utils::hypergeometric_pmf, h_stub)]
fn project_iter_step_d4() {
    project_iter_step::<4>(3, 2)
}

/// C11: the scratch index `to_buf` of a PartialProjection may hold anything from the previous
/// record; project_unchecked(..).add_unchecked gives what a fresh PartialProjection gives.
fn dirty_buf_case<const D: usize, const M: usize>(m: [usize; D]) {
    let totals: [usize; D] = kani::any();
    let counts: [usize; D] = kani::any();
    let mut mshape = [0usize; D];
    let mut j = 0;
    while j < D {
        kani::assume(totals[j] <= 6 && totals[j] >= m[j] && counts[j] <= totals[j]);
        mshape[j] = m[j] + 1;
        j += 1;
    }
    let totals_c = Count(vec_of(&totals));
    let counts_c = Count(vec_of(&counts));
    let mut pp = PartialProjection::new(Count(vec_of(&m)));
    let mut j = 0;
    while j < D {
        pp.to_buf.0[j] = kani::any();
        j += 1;
    }
    let mut scs = Scs::from_zeros(Shape(vec_of(&mshape)));
    pp.project_unchecked(&totals_c, &counts_c).add_unchecked(&mut scs);
    let out = scs.inner().as_slice();
    assert!(out.len() == M);
    let mut q = 0;
    while q < M {
        let t = unrank(&mshape, q);
        let mut w = 1.0f64;
        let mut j = 0;
        while j < D {
            w *= h_ref(totals[j], counts[j], m[j], t[j]);
            j += 1;
        }
        assert!(same(out[q], w));
        q += 1;
    }
    // weighting: into_weighted(c) scales every value
    let mut scs2 = Scs::from_zeros(Shape(vec_of(&mshape)));
    pp.project_unchecked(&totals_c, &counts_c).into_weighted(2.0).add_unchecked(&mut scs2);
    let out2 = scs2.inner().as_slice();
    let mut q = 0;
    while q < M {
        assert!(same(out2[q], 2.0 * out[q]));
        q += 1;
    }
    kani::cover!(true, "reached end");
    core::mem::forget(scs2);
    core::mem::forget(scs);
}

macro_rules! dirty_buf_h {
    ($name:ident, $d:literal, $mm:literal, $m:expr, $unw:literal) => {
        #[kani::proof]
        #[kani::unwind($unw)]
        #[kani::stub(crate::utils::hypergeometric_pmf, h_stub)]
        fn $name() {
            dirty_buf_case::<$d, $mm>($m)
        }
    };
}

// @harness props=C11,C02 tier=quick group=f64 bounds=target=[2],totals<=6,dirty-scratch=any-usize,pmf=table-stub
dirty_buf_h!(project_unchecked_dirty_buf_m2, 1, 3, [2], 7);

// @harness props=C11,C02 tier=quick group=f64 bounds=target=[1,2],totals<=6,dirty-scratch=any-usize,pmf=table-stub timeout=900
dirty_buf_h!(project_unchecked_dirty_buf_m12, 2, 6, [1, 2], 10);

// @harness props=C11,C02 tier=thorough group=f64 bounds=target=[2,0,1],totals<=6,dirty-scratch=any-usize,pmf=table-stub timeout=1800
dirty_buf_h!(project_unchecked_dirty_buf_m201, 3, 6, [2, 0, 1], 10);

/// C11 / C02: two projected sites through ONE PartialProjection (as the site reader does): the
/// second contribution is what a fresh projection gives for the second site, whatever the first was.
fn two_sites_case<const D: usize, const M: usize>(m: [usize; D]) {
    let t1: [usize; D] = kani::any();
    let c1: [usize; D] = kani::any();
    let t2: [usize; D] = kani::any();
    let c2: [usize; D] = kani::any();
    let mut mshape = [0usize; D];
    let mut j = 0;
    while j < D {
        kani::assume(t1[j] <= 6 && t1[j] >= m[j] && c1[j] <= t1[j]);
        kani::assume(t2[j] <= 6 && t2[j] >= m[j] && c2[j] <= t2[j]);
        mshape[j] = m[j] + 1;
        j += 1;
    }
    let (t1c, c1c, t2c, c2c) = (Count(vec_of(&t1)), Count(vec_of(&c1)), Count(vec_of(&t2)), Count(vec_of(&c2)));
    let mut pp = PartialProjection::new(Count(vec_of(&m)));
    let mut first = Scs::from_zeros(Shape(vec_of(&mshape)));
    pp.project_unchecked(&t1c, &c1c).add_unchecked(&mut first);
    let mut second = Scs::from_zeros(Shape(vec_of(&mshape)));
    pp.project_unchecked(&t2c, &c2c).add_unchecked(&mut second);
    let out = second.inner().as_slice();
    let mut q = 0;
    while q < M {
        let t = unrank(&mshape, q);
        let mut w = 1.0f64;
        let mut j = 0;
        while j < D {
            w *= h_ref(t2[j], c2[j], m[j], t[j]);
            j += 1;
        }
        assert!(same(out[q], w));
        q += 1;
    }
    kani::cover!(true, "reached end");
    core::mem::forget(first);
    core::mem::forget(second);
}

macro_rules! two_sites_h {
    ($name:ident, $d:literal, $mm:literal, $m:expr, $unw:literal) => {
        #[kani::proof]
        #[kani::unwind($unw)]
        #[kani::stub(crate::utils::hypergeometric_pmf, h_stub)]
        fn $name() {
            two_sites_case::<$d, $mm>($m)
        }
    };
}

// @harness props=C11,C02 tier=quick group=f64 bounds=target=[2],two-sites,totals<=6,counts-symbolic,pmf=table-stub timeout=900
two_sites_h!(project_two_sites_m2, 1, 3, [2], 7);

// @harness props=C11,C02 tier=thorough group=f64 bounds=target=[1,1],two-sites,totals<=6,counts-symbolic,pmf=table-stub timeout=1800
two_sites_h!(project_two_sites_m11, 2, 4, [1, 1], 8);

/// C03: validation. Ranks concrete, lengths symbolic 0..4.  Ok iff same rank, no zero length and
/// target <= source on every axis; the error names a true reason.
fn from_shapes_case<const RF: usize, const RT: usize>() {
    let f: [usize; RF] = kani::any();
    let t: [usize; RT] = kani::any();
    let mut zero = false;
    let mut j = 0;
    while j < RF {
        kani::assume(f[j] <= 4);
        if f[j] == 0 {
            zero = true;
        }
        j += 1;
    }
    let mut j = 0;
    while j < RT {
        kani::assume(t[j] <= 4);
        if t[j] == 0 {
            zero = true;
        }
        j += 1;
    }
    let unequal = RF != RT;
    let mut larger = false;
    if !unequal {
        let mut j = RF;
        while j > 0 {
            j -= 1;
            if t[j] > f[j] {
                larger = true;
            }
        }
    }
    let r = Projection::from_shapes(Shape(vec_of(&f)), Shape(vec_of(&t)));
    match r {
        Ok(p) => {
            assert!(!zero && !unequal && !larger);
            core::mem::forget(p);
        }
        Err(ProjectionError::Zero) => assert!(zero),
        Err(ProjectionError::UnequalDimensions { from, to }) => {
            assert!(unequal);
            assert!(from == RF && to == RT);
        }
        Err(ProjectionError::InvalidProjection { dimension, from, to }) => {
            assert!(larger);
            // reported in chromosome counts (length - 1), for an axis where the target is larger
            assert!(dimension < RF && to > from);
            assert!(from + 1 == f[dimension] && to + 1 == t[dimension]);
        }
        Err(ProjectionError::Empty) => assert!(RF == 0 && unequal),
    }
    kani::cover!(RF != RT || (!zero && !larger), "accepted (equal ranks)");
    kani::cover!(zero, "zero length");
    kani::cover!(RF != RT || larger, "target larger than source (equal ranks)");
}

macro_rules! from_shapes_h {
    ($name:ident, $rf:literal, $rt:literal) => {
        #[kani::proof]
        #[kani::unwind(6)]
        fn $name() {
            from_shapes_case::<$rf, $rt>()
        }
    };
}

// @harness props=C03 tier=quick bounds=source-rank=1,target-rank=1,lengths=0..4
from_shapes_h!(projection_from_shapes_r1_r1, 1, 1);
// @harness props=C03 tier=quick bounds=source-rank=2,target-rank=2,lengths=0..4
from_shapes_h!(projection_from_shapes_r2_r2, 2, 2);
// @harness props=C03 tier=quick bounds=source-rank=3,target-rank=3,lengths=0..4
from_shapes_h!(projection_from_shapes_r3_r3, 3, 3);
// @harness props=C03 tier=quick bounds=source-rank=1,target-rank=2,lengths=0..4
from_shapes_h!(projection_from_shapes_r1_r2, 1, 2);
// @harness props=C03 tier=quick bounds=source-rank=2,target-rank=1,lengths=0..4
from_shapes_h!(projection_from_shapes_r2_r1, 2, 1);
// @harness props=C03 tier=quick bounds=source-rank=3,target-rank=2,lengths=0..4
from_shapes_h!(projection_from_shapes_r3_r2, 3, 2);
// @harness props=C03 tier=thorough bounds=source-rank=4,target-rank=4,lengths=0..4
from_shapes_h!(projection_from_shapes_r4_r4, 4, 4);
// @harness props=C03 tier=thorough bounds=source-rank=2,target-rank=3,lengths=0..4
from_shapes_h!(projection_from_shapes_r2_r3, 2, 3);
