// Child module of crate::input::genotype::reader::vcf.
// @inject crate=sfs-core file=core/src/input/genotype/reader/vcf.rs mod=kv_genotype_vcf
//
// C08: the conversion both the VCF and the BCF reader end in (`From<Option<VcfGenotype>>`; GT string
// / BCF byte decoding is noodles' and not encoded).  Ploidy is concrete per harness (it sizes the
// allele vector); every allele is `Option<usize>` over the FULL usize range; phasing symbolic.
#![allow(unused_imports)]
use super::*;
use vcf::record::genotypes::sample::value::genotype::{allele::Phasing, Allele};

fn any_phasing() -> Phasing {
    if kani::any() {
        Phasing::Phased
    } else {
        Phasing::Unphased
    }
}

fn any_allele() -> (Option<usize>, Allele) {
    let p: Option<usize> = if kani::any() { Some(kani::any()) } else { None };
    (p, Allele::new(p, any_phasing()))
}

fn classify<const P: usize>() {
    let mut pos = [None; P];
    let mut alleles = Vec::with_capacity(P);
    let mut i = 0;
    while i < P {
        let (p, a) = any_allele();
        pos[i] = p;
        alleles.push(a);
        i += 1;
    }
    let gt = match VcfGenotype::try_from(alleles) {
        Ok(g) => g,
        Err(_) => {
            assert!(false);
            return;
        }
    };
    let got = genotype::Result::from(Some(gt));
    // oracle, from the statement
    let expect = if P != 2 {
        genotype::Result::Error(genotype::Error::PloidyError)
    } else {
        match (pos[0], pos[1]) {
            (Some(a), Some(b)) => {
                if a <= 1 && b <= 1 {
                    // number of alleles equal to ALT allele 1
                    let alt = (a == 1) as usize + (b == 1) as usize;
                    genotype::Result::Genotype(match alt {
                        0 => Genotype::Zero,
                        1 => Genotype::One,
                        _ => Genotype::Two,
                    })
                } else {
                    genotype::Result::Skipped(genotype::Skipped::Multiallelic)
                }
            }
            _ => genotype::Result::Skipped(genotype::Skipped::Missing),
        }
    };
    assert!(got == expect);
    kani::cover!(P != 2 || matches!(got, genotype::Result::Genotype(Genotype::One)), "heterozygous call (diploid)");
    kani::cover!(P != 2 || matches!(got, genotype::Result::Skipped(genotype::Skipped::Multiallelic)), "multiallelic (diploid)");
    kani::cover!(P != 2 || matches!(got, genotype::Result::Skipped(genotype::Skipped::Missing)), "missing (diploid)");
    kani::cover!(P == 2 || matches!(got, genotype::Result::Error(_)), "ploidy error (non-diploid)");
}

// @harness props=C08,C17 tier=quick bounds=ploidy=1,alleles=None|any-usize,phasing=any
#[kani::proof]
#[kani::unwind(5)]
fn genotype_from_vcf_p1() {
    classify::<1>()
}

// @harness props=C08,C17,C01 tier=quick bounds=ploidy=2,alleles=None|any-usize,phasing=any
#[kani::proof]
#[kani::unwind(5)]
fn genotype_from_vcf_p2() {
    classify::<2>()
}

// @harness props=C08,C17 tier=quick bounds=ploidy=3,alleles=None|any-usize,phasing=any
#[kani::proof]
#[kani::unwind(6)]
fn genotype_from_vcf_p3() {
    classify::<3>()
}

// @harness props=C08,C17 tier=thorough bounds=ploidy=4,alleles=None|any-usize,phasing=any
#[kani::proof]
#[kani::unwind(7)]
fn genotype_from_vcf_p4() {
    classify::<4>()
}

// @harness props=C08 tier=quick bounds=absent-genotype
#[kani::proof]
fn genotype_from_vcf_none() {
    let got = genotype::Result::from(None);
    assert!(got == genotype::Result::Skipped(genotype::Skipped::Missing));
    kani::cover!(true, "reached");
}
