// Child module of crate::input::genotype::reader::builder.
// @inject crate=sfs-core file=core/src/input/genotype/reader/builder.rs mod=kv_genotype_builder
//
// C18: detection of compression / format must not depend on how the stream is chunked.
#![allow(unused_imports)]
use super::*;
use std::io::{self, BufRead, Read};

/// BufRead whose first fill_buf returns only the first `first` bytes
struct FirstChunk<'a> {
    data: &'a [u8],
    first: usize,
    pos: usize,
}

impl<'a> Read for FirstChunk<'a> {
    fn read(&mut self, buf: &mut [u8]) -> io::Result<usize> {
        let avail = self.fill_buf()?;
        let n = if avail.len() < buf.len() { avail.len() } else { buf.len() };
        buf[..n].copy_from_slice(&avail[..n]);
        self.consume(n);
        Ok(n)
    }
}

impl<'a> BufRead for FirstChunk<'a> {
    fn fill_buf(&mut self) -> io::Result<&[u8]> {
        if self.pos < self.first {
            Ok(&self.data[self.pos..self.first])
        } else {
            Ok(&self.data[self.pos..])
        }
    }
    fn consume(&mut self, amt: usize) {
        self.pos += amt;
    }
}

fn detect_both(data: &[u8; 6], first: usize) -> (Option<Option<CompressionMethod>>, Option<Format>, Option<Option<CompressionMethod>>, Option<Format>) {
    let mut whole = FirstChunk { data, first: 6, pos: 0 };
    let mut part = FirstChunk { data, first, pos: 0 };
    let cw = match CompressionMethod::detect(&mut whole) {
        Ok(v) => Some(v),
        Err(e) => {
            core::mem::forget(e);
            None
        }
    };
    let cp = match CompressionMethod::detect(&mut part) {
        Ok(v) => Some(v),
        Err(e) => {
            core::mem::forget(e);
            None
        }
    };
    // uncompressed branch of the format detection (the BGZF branch runs flate2: not encodable)
    let fw = match Format::detect(&mut whole, None) {
        Ok(v) => Some(v),
        Err(e) => {
            core::mem::forget(e);
            None
        }
    };
    let fp = match Format::detect(&mut part, None) {
        Ok(v) => Some(v),
        Err(e) => {
            core::mem::forget(e);
            None
        }
    };
    (cw, fw, cp, fp)
}

// @harness props=C18 tier=quick bounds=6-symbolic-leading-bytes,first-chunk-length=3..6(at-least-the-longest-magic)
#[kani::proof]
#[kani::unwind(10)]
fn detect_first_chunk_long() {
    let data: [u8; 6] = kani::any();
    let first: usize = kani::any();
    kani::assume(first >= 3 && first <= 6);
    let (cw, fw, cp, fp) = detect_both(&data, first);
    assert!(cw == cp);
    assert!(fw == fp);
    assert!(cw == Some(if data[0] == 0x1f && data[1] == 0x8b { Some(CompressionMethod::Bgzf) } else { None }));
    assert!(fw == Some(if data[0] == b'B' && data[1] == b'C' && data[2] == b'F' { Format::Bcf } else { Format::Vcf }));
    kani::cover!(cw == Some(Some(CompressionMethod::Bgzf)), "gzip magic");
    kani::cover!(fw == Some(Format::Bcf), "BCF magic");
}

// @harness props=C18 tier=quick role=known-finding bounds=6-symbolic-leading-bytes,first-chunk-length=1..2(shorter-than-a-magic)
#[kani::proof]
#[kani::unwind(10)]
fn detect_first_chunk_short() {
    let data: [u8; 6] = kani::any();
    let first: usize = kani::any();
    kani::assume(first >= 1 && first <= 2);
    let (cw, fw, cp, fp) = detect_both(&data, first);
    assert!(cw == cp, "compression detection depends on the first chunk length");
    assert!(fw == fp, "format detection depends on the first chunk length");
    kani::cover!(true, "reached end");
}
